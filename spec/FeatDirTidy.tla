------------------------------ MODULE FeatDirTidy ------------------------------
(***************************************************************************)
(* Canary for C10_ManifestOnlyGrows: FeatDir with the start-up of seeded   *)
(* change C10-r10-mut1, which "tidies" the manifest - truncates the file    *)
(* and prints the entries back WITHOUT flushing.  Until the first           *)
(* per-utterance flush the listed utterances exist only in the user-space   *)
(* buffer, and a hard kill there loses them.  TLC must refute the property  *)
(* on this variant (FeatDirTidy.cfg); it holds on FeatDir itself.           *)
(***************************************************************************)
EXTENDS FeatDir
TidyStart == /\ pc = "idle"
             /\ todo' = SelectSeq(Map, LAMBDA u : u \notin Range(disk))
             /\ startManifest' = Range(disk)
             /\ disk' = <<>> /\ buf' = disk
             /\ i' = 1 /\ pc' = "loop" /\ doneThisRun' = {} /\ ahead' = 0 /\ UNCHANGED <<files, crashes>>
TidyNext == TidyStart \/ WorkerCompute \/ SaveBegin \/ SaveWrite \/ SaveEnd \/ ManifestPrint \/ BufferFlush \/ Finish \/ HardKill \/ SoftInt \/ Restart
TidySpec == Init /\ [][TidyNext]_vars
===============================================================================
