CONSTANTS
  Configs <- CfgThorough
  MaxExtra = 3
  MaxUtt = 3
  FullOn = TRUE
  MinLenRule = TRUE
SPECIFICATION Spec
INVARIANT TypeOK
INVARIANT NoAssertFail
INVARIANT C01_StreamEqualsFull
INVARIANT C01_FbFEqualsFull
INVARIANT C02_FullIsDefinition
INVARIANT C02_FrameCount
INVARIANT C04_ResetAfterFinalize
INVARIANT C04_NoStaleToken
INVARIANT C04_StartedExactly
PROPERTY C04_RefusalIsNoOp
PROPERTY C04_RefusedOnlyWhenStarted
PROPERTY C04_FullNeverRefusedWhenIdle
CHECK_DEADLOCK FALSE
