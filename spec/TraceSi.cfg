CONSTANTS
  Configs = {}
  MaxN = 1000
  MaxUtt = 1000
  Dtypes = {}
  KeepRule = "code"
SPECIFICATION TSpec
INVARIANT TC03_FrameCount
INVARIANT TC01_SiStreamEqualsDef
INVARIANT TC03_EachPairOnce
CHECK_DEADLOCK FALSE
