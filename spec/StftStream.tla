------------------------------ MODULE StftStream ------------------------------
(***************************************************************************)
(* Implementation-shaped model of ShortTimeFourierTransformFrameComputer's *)
(* framing (compute.py: compute_chunk, finalize, compute_full and          *)
(* frame_by_frame_calculation), at the level of sample tokens: which       *)
(* sample lands in which position of which frame.  One action per public   *)
(* call (sequential library: the linearization point is the call's         *)
(* return).  Bodies are transcribed from the code with Python's slice      *)
(* semantics (PySlice) and numpy's symmetric padding (PadSym).             *)
(*                                                                         *)
(* TLC checks, in every reachable state and for every configuration in     *)
(* Configs, that this machine agrees with the documented definition        *)
(* (FrameDef): C01 (every chunking = whole signal), C02 (compute_full is   *)
(* the definition), C04 (no dependence on earlier utterances, started      *)
(* flag, refusals are no-ops).                                             *)
(***************************************************************************)
EXTENDS FrameDef, TLC

CONSTANTS Configs,     \* set of records [L, S, st]
          MaxExtra,    \* signals up to 2L + S + MaxExtra samples
          MaxUtt,      \* utterances per history
          FullOn,      \* TRUE: also interleave compute_full / frame_by_frame
          MinLenRule   \* TRUE: the code as it is; FALSE: canary (streaming ignores compute_full's minimum length)

VARIABLES cfg,     \* [L, S, st]
          buf,     \* the ring buffer: L tokens (J where never written)
          bufLen,  \* _buf_len : samples at the end of buf not yet consumed
          first,   \* _first_frame
          started, \* _started
          utt,     \* number of the utterance in progress / last completed
          fed,     \* samples of that utterance seen so far
          out,     \* frames emitted for it so far
          ret,     \* frames returned by the last call
          err,     \* the last call was refused with ValueError
          just,    \* kind of the last call
          bad      \* an assert of the code (or len(frame) # L) would have failed

vars == <<cfg, buf, bufLen, first, started, utt, fed, out, ret, err, just, bad>>

L == cfg.L
S == cfg.S
st == cfg.st

Fresh == just \in {"init", "finalize", "full", "fbf"}   \* no utterance in progress
CurUtt == IF Fresh THEN utt + 1 ELSE utt
CurFed == IF Fresh THEN 0 ELSE fed
CurOut == IF Fresh THEN <<>> ELSE out

FirstLen == IF st = "kaldi" THEN ((L + 1) \div 2) + (S \div 2) ELSE (L \div 2) + 1

(* ---------------- compute_chunk ---------------------------------------- *)
\* the frame loop; r carries the locals the loop mutates
RECURSIVE Loop(_, _, _)
Loop(r, idx, nf) ==
  IF idx >= nf THEN r ELSE
  LET fsi == idx * S
      frame0 == IF fsi < r.bufLen
                THEN PyFrom(r.buf, -(r.bufLen - fsi)) \o PyTo(r.chunk, r.fl - r.bufLen + fsi)
                ELSE PySlice(r.chunk, fsi - r.bufLen, fsi - r.bufLen + r.fl)
  IN IF r.ncf
     THEN \* first frame of a centered computer: its left half is a reflection
          LET nbuf == PadSym(frame0, PadLeft(L, S, st), 0)
          IN Loop([r EXCEPT !.chunk = PyFrom(r.chunk, r.fl - r.bufLen), !.fl = L,
                            !.buf = IF Len(nbuf) = L THEN nbuf ELSE r.buf,
                            !.totalLen = (Len(r.chunk) - (r.fl - r.bufLen)) + L,
                            !.bufLen = L, !.ncf = FALSE,
                            !.frames = Append(r.frames, nbuf), !.first = FALSE,
                            !.bad = r.bad \/ Len(nbuf) # L], idx + 1, nf)
     ELSE Loop([r EXCEPT !.frames = Append(r.frames, frame0), !.first = FALSE,
                         !.bad = r.bad \/ Len(frame0) # L], idx + 1, nf)

\* s = [buf, bufLen, first]; returns the new s plus frames and bad
ChunkRes(s, chunk) ==
  LET ncf == (st # "causal") /\ s.first
      fl0 == IF ncf THEN FirstLen ELSE L
      total0 == Len(chunk) + s.bufLen
      nf0 == Max(0, ((total0 - fl0) \div S) + 1)
      nf == IF MinLenRule /\ s.first /\ total0 < MinLen(L) THEN 0 ELSE nf0
      r == Loop([buf |-> s.buf, bufLen |-> s.bufLen, chunk |-> chunk, fl |-> fl0, ncf |-> ncf,
                 frames |-> <<>>, first |-> s.first, totalLen |-> total0, bad |-> FALSE], 0, nf)
      rem == r.totalLen - nf * S
      valid == IF r.first THEN r.bufLen ELSE L
      cat == PyFrom(r.buf, L - valid) \o r.chunk
      keep == IF Len(cat) > L THEN PyFrom(cat, Len(cat) - L) ELSE cat
      nb == Assign(r.buf, L - Len(keep), keep)
  IN [buf |-> nb, bufLen |-> rem, first |-> r.first, frames |-> r.frames,
      bad |-> r.bad \/ ~(rem < L) \/ rem < 0]

(* ---------------- finalize ---------------------------------------------- *)
FinalizeFrames(s) ==
  LET pl0 == PadLeft(L, S, st)
      n0 == s.bufLen + (S \div 2)
      n1 == IF s.first THEN n0 ELSE n0 - pl0
      pl == IF s.first THEN pl0 ELSE 0
      nf0 == n1 \div S
      nf == IF MinLenRule /\ s.first /\ s.bufLen < MinLen(L) THEN 0 ELSE nf0
  IN IF nf >= 1
     THEN LET pr == (nf - 1) * S + L - s.bufLen - pl
              fr == IF s.first
                    THEN PadSym(PyFrom(s.buf, L - s.bufLen), pl, pr)
                    ELSE PyFrom(PadSym(s.buf, 0, pr), L - s.bufLen)
          IN [k \in 1..nf |-> PySlice(fr, (k - 1) * S, (k - 1) * S + L)]
     ELSE <<>>

(* ---------------- compute_full (own algorithm, not streaming) ----------- *)
\* c: configuration record; also valid for a shift longer than the frame (gapped frames), where the kaldi
\* left padding is negative: frames then start past sample 0
FullImplC(c, n, u) ==
  IF n < MinLen(c.L) THEN <<>> ELSE
  LET pl == PadLeft(c.L, c.S, c.st)
      nf == Max(0, (n + (c.S \div 2)) \div c.S)
      total == (nf - 1) * c.S - pl + c.L
      pr == Max(0, total - n)
      sig == [i \in 1..n |-> Tok(u, i - 1)]
      padded0 == IF pl > 0 \/ pr > 0 THEN PadSym(sig, Max(pl, 0), pr) ELSE sig
      padded == IF pl < 0 THEN PyFrom(padded0, -pl) ELSE padded0
  IN [k \in 1..nf |-> PySlice(padded, (k - 1) * c.S, (k - 1) * c.S + c.L)]
FullImpl(n, u) == FullImplC(cfg, n, u)

(* ---------------- frame_by_frame_calculation ---------------------------- *)
\* feeds tokens pos..n-1 of utterance u in chunks of cs, then finalizes
RECURSIVE FbFRun(_, _, _, _, _, _)
FbFRun(s, frames, pos, n, cs, u) ==
  IF pos >= n
  THEN [s |-> s, frames |-> frames \o FinalizeFrames(s), bad |-> FALSE]
  ELSE LET c == Min(cs, n - pos)
           res == ChunkRes(s, [i \in 1..c |-> Tok(u, pos + i - 1)])
           rest == FbFRun([buf |-> res.buf, bufLen |-> res.bufLen, first |-> res.first],
                          frames \o res.frames, pos + c, n, cs, u)
       IN [rest EXCEPT !.bad = rest.bad \/ res.bad]

(* ---------------- actions ------------------------------------------------ *)
St == [buf |-> buf, bufLen |-> bufLen, first |-> first]

Chunk(c) ==
  /\ LET res == ChunkRes(St, [i \in 1..c |-> Tok(CurUtt, CurFed + i - 1)]) IN
     /\ buf' = res.buf /\ bufLen' = res.bufLen /\ first' = res.first
     /\ ret' = res.frames /\ out' = CurOut \o res.frames /\ bad' = (bad \/ res.bad)
  /\ fed' = CurFed + c /\ utt' = CurUtt /\ started' = TRUE
  /\ err' = FALSE /\ just' = "chunk" /\ UNCHANGED cfg

Finalize ==
  /\ LET fr == FinalizeFrames(St) IN
     /\ ret' = fr /\ out' = CurOut \o fr
  /\ bufLen' = 0 /\ started' = FALSE /\ first' = TRUE
  /\ fed' = CurFed /\ utt' = CurUtt
  /\ err' = FALSE /\ just' = "finalize" /\ UNCHANGED <<cfg, buf, bad>>

\* compute_full / frame_by_frame_calculation while an utterance is in progress
Refused(kind) ==
  /\ started
  /\ err' = TRUE
  /\ UNCHANGED <<cfg, buf, bufLen, first, started, utt, fed, out, ret, just, bad>>

Full(n) ==
  \/ Refused("full")
  \/ /\ ~started
     /\ ret' = FullImpl(n, utt + 1) /\ out' = ret'
     /\ bad' = (bad \/ \E k \in 1..Len(ret') : Len(ret'[k]) # L)
     /\ utt' = utt + 1 /\ fed' = n /\ err' = FALSE /\ just' = "full"
     /\ UNCHANGED <<cfg, buf, bufLen, first, started>>

FbF(n, cs) ==
  \/ Refused("fbf")
  \/ /\ ~started
     /\ LET run == FbFRun(St, <<>>, 0, n, cs, utt + 1) IN
        /\ ret' = run.frames /\ out' = run.frames
        /\ buf' = run.s.buf /\ bad' = (bad \/ run.bad)
     /\ bufLen' = 0 /\ first' = TRUE /\ started' = FALSE
     /\ utt' = utt + 1 /\ fed' = n /\ err' = FALSE /\ just' = "fbf"
     /\ UNCHANGED cfg

MaxN == 2 * L + S + MaxExtra

Init ==
  /\ cfg \in Configs
  /\ buf = [i \in 1..cfg.L |-> J] /\ bufLen = 0 /\ first = TRUE /\ started = FALSE
  /\ utt = 0 /\ fed = 0 /\ out = <<>> /\ ret = <<>> /\ err = FALSE /\ just = "init" /\ bad = FALSE

NChunk    == CurUtt <= MaxUtt /\ \E c \in 0..(MaxN - CurFed) : Chunk(c)
NFinalize == CurUtt <= MaxUtt /\ Finalize
NFull     == /\ FullOn /\ (started \/ utt < MaxUtt)
             /\ \E n \in {0, MinLen(L) - 1, MinLen(L), L, L + S + 1} : Full(n)
NFbF      == /\ FullOn /\ (started \/ utt < MaxUtt)
             /\ \E n \in {0, L - 1, L + S + 1} : \E cs \in {1, 2, L} : FbF(n, cs)
Next == NChunk \/ NFinalize \/ NFull \/ NFbF

Spec == Init /\ [][Next]_vars

(* ---------------- properties --------------------------------------------- *)
TypeOK == /\ bufLen \in 0..(L - 1) /\ Len(buf) = L
          /\ first \in BOOLEAN /\ started \in BOOLEAN
NoAssertFail == ~bad

\* C01: concatenated compute_chunk outputs + finalize = the definition of the whole signal
C01_StreamEqualsFull == just = "finalize" => out = FullFrames(fed, L, S, st, utt)
C01_FbFEqualsFull    == just = "fbf" => ret = FullFrames(fed, L, S, st, utt)
\* C02: compute_full's frames are the documented ranges with symmetric reflection
C02_FullIsDefinition == just = "full" => ret = FullFrames(fed, L, S, st, utt)
C02_FrameCount       == just \in {"full", "finalize", "fbf"} => Len(out) = NumFrames(fed, L, S)
\* C04
C04_ResetAfterFinalize == just \in {"finalize", "fbf"} => bufLen = 0 /\ first /\ ~started
C04_NoStaleToken ==
  \A k \in 1..Len(out) : \A j \in 1..Len(out[k]) :
     out[k][j] # J /\ out[k][j] \div TokBase = utt
C04_StartedExactly == started <=> (just = "chunk")
C04_RefusalIsNoOp ==
  [][err' => UNCHANGED <<cfg, buf, bufLen, first, started, utt, fed, out, ret, just, bad>>]_vars
C04_RefusedOnlyWhenStarted == [][err' => started]_vars
C04_FullNeverRefusedWhenIdle ==
  [][(just' \in {"full", "fbf"} /\ just' # just) => ~started]_vars
===============================================================================
