------------------------------- MODULE PostLayout -------------------------------
(***************************************************************************)
(* C15: Stack and Deltas (post.py) as index maps on N-D tensors.           *)
(*                                                                         *)
(* A tensor shape is a sequence of extents; cells are addressed by their   *)
(* row-major flat index (0-based).  An output cell is a formal linear      *)
(* combination of input cells: a sequence of <<source flat index, integer  *)
(* numerator>> over a common denominator (source -1 is a constant-padding  *)
(* zero).  Nothing here is taken from the implementation: Stack is "runs   *)
(* of num_vectors consecutive frames side by side along the feature axis", *)
(* Deltas is the Kaldi regression d[t] = sum_j j x[t+j] / sum_j j^2        *)
(* applied k times, edges extended by the padding mode.                    *)
(***************************************************************************)
EXTENDS Integers, Sequences, FiniteSets, TLC

RECURSIVE Prod(_, _)
Prod(sh, from) == IF from > Len(sh) THEN 1 ELSE sh[from] * Prod(sh, from + 1)
Size(sh) == Prod(sh, 1)
\* multi-index (1-based positions, 0-based values) of a flat index
Unflat(flat, sh) == [d \in 1..Len(sh) |-> (flat \div Prod(sh, d + 1)) % sh[d]]
RECURSIVE FlatFrom(_, _, _)
FlatFrom(idx, sh, d) == IF d > Len(sh) THEN 0 ELSE idx[d] * Prod(sh, d + 1) + FlatFrom(idx, sh, d + 1)
Flat(idx, sh) == FlatFrom(idx, sh, 1)
\* Python axis (possibly negative, 0-based) -> 1-based position
Ax(a, nd) == (a % nd) + 1

\* numpy.pad index map for a length-T axis: position i (any integer) -> source position, -1 for the padding
\* constant (constant_values, 0 unless given)
Refl(i, n) == LET m == i % (2 * n) IN IF m < n THEN m ELSE 2 * n - 1 - m
PadIdx(i, T, mode) ==
  CASE mode = "edge"      -> IF i < 0 THEN 0 ELSE IF i >= T THEN T - 1 ELSE i
    [] mode = "constant"  -> IF i < 0 \/ i >= T THEN -1 ELSE i
    [] mode = "wrap"      -> i % T
    [] mode = "symmetric" -> Refl(i, T)
    [] mode = "reflect"   -> IF T = 1 THEN 0 ELSE LET m == i % (2 * T - 2) IN IF m < T THEN m ELSE 2 * T - 2 - m

(* ------------------------------- Stack ---------------------------------- *)
\* pad: "none" | a numpy.pad mode ("edge", "constant", "reflect", "symmetric", "wrap")
StackT(sh, t, V, pad) == LET T == sh[t] IN
                         IF pad # "none" /\ T % V # 0 THEN T + V - (T % V) ELSE T
StackShape(sh, a, t, V, pad) ==
  [d \in 1..Len(sh) |-> IF d = t THEN StackT(sh, t, V, pad) \div V ELSE IF d = a THEN sh[a] * V ELSE sh[d]]
\* source flat index of output cell `flat` (-1: a constant-padding zero)
StackSrc(flat, sh, a, t, V, pad) ==
  LET osh == StackShape(sh, a, t, V, pad)
      o == Unflat(flat, osh)
      v == o[a] \div sh[a]
      f == o[a] % sh[a]
      time == o[t] * V + v
      T == sh[t]
      tt == IF time < T THEN time ELSE PadIdx(time, T, pad)   \* numpy.pad on the right only; -1: the padding constant
  IN IF tt < 0 THEN -1 ELSE Flat([d \in 1..Len(sh) |-> IF d = t THEN tt ELSE IF d = a THEN f ELSE o[d]], sh)
StackMap(sh, a, t, V, pad) ==
  LET osh == StackShape(sh, a, t, V, pad) IN [i \in 1..Size(osh) |-> StackSrc(i - 1, sh, a, t, V, pad)]

(* ------------------------------- Deltas --------------------------------- *)
\* numerators of the k-fold convolution of [-W .. W] (index 1..2kW+1); k = 0: <<1>>
Base(W) == [j \in 1..(2 * W + 1) |-> j - 1 - W]
Conv(x, y) == [n \in 1..(Len(x) + Len(y) - 1) |->
                 LET lo == IF n - Len(y) + 1 > 1 THEN n - Len(y) + 1 ELSE 1
                     hi == IF n < Len(x) THEN n ELSE Len(x)
                     S[i \in (lo - 1)..hi] == IF i = lo - 1 THEN 0 ELSE S[i - 1] + x[i] * y[n - i + 1]
                 IN S[hi]]
RECURSIVE Filt(_, _)
Filt(k, W) == IF k = 0 THEN <<1>> ELSE Conv(Filt(k - 1, W), Base(W))
SumSq(W) == LET S[j \in 0..W] == IF j = 0 THEN 0 ELSE S[j - 1] + 2 * j * j IN S[W]
RECURSIVE Pow(_, _)
Pow(b, e) == IF e = 0 THEN 1 ELSE b * Pow(b, e - 1)
Den(k, W) == Pow(SumSq(W), k)
\* Modes whose padded values are combinations of samples rather than copies of one sample, and depend on the
\* width w of the extension: "linear_ramp" (from the edge sample to the end value - source -1, 0 unless given -,
\* numpy.linspace without the end point) and "mean" (of the whole axis).  A position is a sequence of <<source position, numerator>> over
\* the common denominator PadDen.
PadDen(T, mode, w) == CASE mode = "linear_ramp" -> (IF w = 0 THEN 1 ELSE w)
                        [] mode = "mean" -> T
                        [] OTHER -> 1
PadTerms(i, T, mode, w) ==
  IF i >= 0 /\ i < T THEN << <<i, PadDen(T, mode, w)>> >>
  ELSE CASE mode = "linear_ramp" -> LET j == IF i < 0 THEN -i ELSE i - T + 1    \* distance beyond the edge, 1..w
                                    IN << <<(IF i < 0 THEN 0 ELSE T - 1), w - j>>, <<-1, j>> >>   \* -1: the end value
         [] mode = "mean" -> [p \in 1..T |-> <<p - 1, 1>>]
         [] OTHER -> << <<PadIdx(i, T, mode), 1>> >>
RECURSIVE Cat(_, _)
Cat(ss, n) == IF n = 0 THEN <<>> ELSE Cat(ss, n - 1) \o ss[n]
\* order-k delta of the cell with multi-index o (on input shape sh), filtered along axis position a:
\* the k-fold filter on the axis extended by k W samples to either side; sequence of <<source flat, numerator>>
\* over the denominator DeltaDen
DeltaDen(T, k, W, mode) == Den(k, W) * PadDen(T, mode, k * W)
DeltaTerms(o, sh, a, k, W, mode) ==
  LET f == Filt(k, W)
      T == sh[a]
      per == [m \in 1..Len(f) |->
                LET pt == PadTerms(o[a] + (m - 1) - k * W, T, mode, k * W)
                IN [q \in 1..Len(pt) |->
                      << (IF pt[q][1] < 0 THEN -1 ELSE Flat([d \in 1..Len(sh) |-> IF d = a THEN pt[q][1] ELSE o[d]], sh)),
                         f[m] * pt[q][2] >>]]
  IN Cat(per, Len(per))
\* output shape: concatenated along, or stacked on a new axis at, target position
DeltaShape(sh, tgt, K, cat) ==
  IF cat THEN [d \in 1..Len(sh) |-> IF d = tgt THEN sh[d] * (K + 1) ELSE sh[d]]
  ELSE [d \in 1..(Len(sh) + 1) |-> IF d < tgt THEN sh[d] ELSE IF d = tgt THEN K + 1 ELSE sh[d - 1]]
\* which order and which input cell an output cell shows
DeltaCell(flat, sh, tgt, K, cat) ==
  LET osh == DeltaShape(sh, tgt, K, cat)
      o == Unflat(flat, osh)
  IN IF cat THEN [k |-> o[tgt] \div sh[tgt], o |-> [d \in 1..Len(sh) |-> IF d = tgt THEN o[d] % sh[tgt] ELSE o[d]]]
     ELSE [k |-> o[tgt], o |-> [d \in 1..Len(sh) |-> IF d < tgt THEN o[d] ELSE o[d + 1]]]
DeltaMap(sh, a, tgt, K, cat, W, mode) ==
  LET osh == DeltaShape(sh, tgt, K, cat) IN
  [i \in 1..Size(osh) |-> LET c == DeltaCell(i - 1, sh, tgt, K, cat)
                          IN [den |-> DeltaDen(sh[a], c.k, W, mode), terms |-> DeltaTerms(c.o, sh, a, c.k, W, mode)]]

(* ---------------- internal consistency (TLC evaluates these) ------------- *)
\* value of a combination for an integer-valued input x (sequence over flat indices), times den
Eval(terms, x) == LET S[i \in 0..Len(terms)] ==
                        IF i = 0 THEN 0 ELSE S[i - 1] + (IF terms[i][1] < 0 THEN 0 ELSE terms[i][2] * x[terms[i][1] + 1])
                  IN S[Len(terms)]
\* Kaldi recursion on an edge-extended 1-D sequence: order k at position t (any integer), scaled by SumSq^k
RECURSIVE Rec(_, _, _, _)
Rec(x, t, k, W) == IF k = 0 THEN x[PadIdx(t, Len(x), "edge") + 1]
                   ELSE LET S[j \in (-W - 1)..W] == IF j = -W - 1 THEN 0 ELSE S[j - 1] + j * Rec(x, t + j, k - 1, W)
                        IN S[W]
C15_DeltaIsKaldiRecursion ==
  \A T \in 1..4 : \A W \in 1..2 : \A k \in 0..2 :
    \A x \in {[i \in 1..T |-> ((i * i * 3 + i) % 7) - 3], [i \in 1..T |-> IF i = 1 THEN 1 ELSE 0], [i \in 1..T |-> IF i = T THEN 1 ELSE 0]} :
      \A t \in 0..(T - 1) : Eval(DeltaTerms(<<t>>, <<T>>, 1, k, W, "edge"), x) = Rec(x, t, k, W)
\* 2-D Stack is the N-D rule specialised: frames of a (T, F) matrix, time axis 0
C15_Stack2DEqualsReshape ==
  \A T \in 0..5 : \A F \in 1..2 : \A V \in 1..3 :
    LET nT == T \div V IN
    StackMap(<<T, F>>, 2, 1, V, "none") = [i \in 1..(nT * F * V) |-> i - 1]   \* reshape(nT, F V) of the first nT V rows
C15_ShapeRule ==
  \A T \in 0..5 : \A V \in 1..4 : \A pad \in {"none", "edge"} :
    StackShape(<<T, 2, 3>>, 3, 1, V, pad)[1] = (IF pad = "none" THEN T \div V ELSE (T + V - 1) \div V)
\* the ramp and mean extensions, stated directly on a sequence: value (times the denominator) of extended position t
ExtVal(x, t, mode, w) ==
  LET T == Len(x) IN
  IF t >= 0 /\ t < T THEN x[t + 1] * PadDen(T, mode, w)
  ELSE IF mode = "linear_ramp" THEN (IF t < 0 THEN x[1] * (w + t) ELSE x[T] * (w - (t - T + 1)))   \* (end value 0)
  ELSE LET S[i \in 0..T] == IF i = 0 THEN 0 ELSE S[i - 1] + x[i] IN S[T]
C15_WidthDependentModes ==
  \A T \in 1..4 : \A W \in 1..2 : \A k \in 1..2 : \A mode \in {"linear_ramp", "mean"} :
    \A x \in {[i \in 1..T |-> ((i * i * 3 + i) % 7) - 3], [i \in 1..T |-> IF i = 1 THEN 5 ELSE 0], [i \in 1..T |-> i]} :
      \A t \in 0..(T - 1) :
        LET f == Filt(k, W)
            S[m \in 0..Len(f)] == IF m = 0 THEN 0 ELSE S[m - 1] + f[m] * ExtVal(x, t + (m - 1) - k * W, mode, k * W)
        IN Eval(DeltaTerms(<<t>>, <<T>>, 1, k, W, mode), x) = S[Len(f)]
ASSUME C15_DeltaIsKaldiRecursion
ASSUME C15_WidthDependentModes
ASSUME C15_Stack2DEqualsReshape
ASSUME C15_ShapeRule
===============================================================================
