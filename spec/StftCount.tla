-------------------------------- MODULE StftCount --------------------------------
(***************************************************************************)
(* Count-level abstraction of StftStream (same actions, integers only):    *)
(* how many frames the streaming STFT emits, for UNBOUNDED signal length   *)
(* and chunk sizes.  Checked with Apalache as an inductive invariant for a *)
(* fixed configuration (L, S, style) - including real sizes such as        *)
(* L = 400, S = 160 that no bounded TLC run reaches - and with TLC for     *)
(* small bounds.  Style: 0 causal, 1 centered, 2 kaldi.                    *)
(***************************************************************************)
EXTENDS Integers, StftCountDef
CONSTANTS
  \* @type: Int;
  L,
  \* @type: Int;
  S,
  \* @type: Int;
  Style,
  \* @type: Int;
  MaxChunk
VARIABLES
  \* @type: Int;
  bufLen,
  \* @type: Bool;
  first,
  \* @type: Bool;
  started,
  \* @type: Int;
  fed,
  \* @type: Int;
  emitted,
  \* @type: Bool;
  finalized
vars == <<bufLen, first, started, fed, emitted, finalized>>

PadLeft == PadLeftP(L, S, Style)
MinLen == MinLenP(L)
NumFrames(n) == NumFramesP(n, L, S)

Init == bufLen = 0 /\ first = TRUE /\ started = FALSE /\ fed = 0 /\ emitted = 0 /\ finalized = FALSE

\* compute_chunk on c more samples (compute.py, after the repair)
Chunk(c) ==
  /\ c >= 0 /\ ~finalized
  /\ emitted' = emitted + ChunkNf(L, S, Style, bufLen, first, c)
  /\ bufLen' = ChunkBufLen(L, S, Style, bufLen, first, c)
  /\ first' = (first /\ ChunkNf(L, S, Style, bufLen, first, c) = 0)
  /\ fed' = fed + c /\ started' = TRUE /\ UNCHANGED finalized

Finalize ==
  /\ ~finalized
  /\ emitted' = emitted + FinalizeNf(L, S, Style, bufLen, first)
  /\ finalized' = TRUE /\ started' = FALSE /\ UNCHANGED <<bufLen, first, fed>>

Next == (\E c \in 0..MaxChunk : Chunk(c)) \/ Finalize
Spec == Init /\ [][Next]_vars
Bounded == fed <= 4 * L + 3     \* state constraint for TLC only

\* the property: at finalize the stream has emitted exactly compute_full's number of frames
C01_CountEqualsFull == finalized => emitted = NumFrames(fed)

\* inductive invariant (conservation of samples)
IndInv ==
  /\ fed >= 0 /\ emitted >= 0 /\ bufLen >= 0 /\ bufLen < L
  /\ (~finalized /\ first) => (bufLen = fed /\ emitted = 0)
  /\ (~finalized /\ ~first) => (emitted >= 1 /\ emitted * S + bufLen = fed + PadLeft /\ bufLen >= L - S /\ fed >= MinLen)
  /\ finalized => emitted = NumFrames(fed)
IndInit ==
  /\ bufLen \in Int /\ first \in BOOLEAN /\ started \in BOOLEAN /\ fed \in Int /\ emitted \in Int /\ finalized \in BOOLEAN
  /\ IndInv
===============================================================================
