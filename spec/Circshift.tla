------------------------------- MODULE Circshift -------------------------------
(***************************************************************************)
(* C20: circshift_fourier (util.py) in exact arithmetic, and the structure *)
(* laws of the window functions (filters.py).                              *)
(*                                                                         *)
(* Spectra of unit impulses are powers of w = exp(-2 pi i / D): the DFT of *)
(* the impulse at p is X[k] = w^(p k).  A value is represented by its      *)
(* exponent in Z_D.  Shifting by `shift` samples must turn the segment     *)
(* X[start .. start+len) of the impulse at p into the same segment of the  *)
(* impulse at (p + shift) % D (shift theorem); by linearity the impulse    *)
(* basis covers all spectra.                                               *)
(*                                                                         *)
(* The implementation-shaped operator follows the code's statement order:  *)
(* OrderRule = "default_first" (the code) fills in dft_size = len + start  *)
(* before reducing shift modulo it; "mod_first" (canary, the pre-repair    *)
(* order) reduces first and fails on the documented default.               *)
(***************************************************************************)
EXTENDS Integers, Sequences, FiniteSets, TLC, Json, IOUtils, SequencesExt
CONSTANTS MaxD, OrderRule
None == 0        \* dft_size = None
TypeErr == <<-1>>

\* definition: exponent (mod D) of element j (0-based) of the shifted segment
DefOut(D, p, shift, start, j) == ((p + shift) * ((start + j) % D)) % D
\* the input segment of the impulse at p
InSeg(D, p, start, len) == [j \in 1..len |-> (p * ((start + j - 1) % D)) % D]

\* implementation: returns TypeErr or the exponent sequence; dsz is None or the DFT size
Impl(inseg, shift, start, dsz) ==
  IF OrderRule = "mod_first" /\ dsz = None THEN TypeErr ELSE
  LET d == IF dsz = None THEN Len(inseg) + start ELSE dsz
      sh == shift % d
  IN [j \in 1..Len(inseg) |-> (inseg[j] + sh * ((start + j - 1) % d)) % d]

\* all argument combinations: explicit dft_size (any segment, wrapping ones included) and the
\* documented default (dft_size = len + start, i.e. the segment ends at the last bin)
Cases == UNION { UNION { UNION { UNION {
           { [D |-> D, p |-> p, shift |-> sh, start |-> st, len |-> ln, dsz |-> D] : ln \in 1..D } \cup
           { [D |-> D, p |-> p, shift |-> sh, start |-> st, len |-> D - st, dsz |-> None] }
           : st \in 0..(D - 1) } : sh \in (-2 * D)..(2 * D) } : p \in 0..(D - 1) } : D \in 2..MaxD }

Expected(c) == [j \in 1..c.len |-> DefOut(c.D, c.p, c.shift, c.start, j - 1)]
Got(c) == Impl(InSeg(c.D, c.p, c.start, c.len), c.shift, c.start, c.dsz)
C20_ShiftTheorem == \A c \in Cases : Got(c) = Expected(c)
C20_DefaultDftSize == \A c \in Cases : c.dsz = None => Got(c) # TypeErr

(* ------------------------- window structure laws ------------------------- *)
\* area by which numpy.<kind>(w) is divided, as a rational <<num, den>>
WinArea(kind, w) == LET m == IF w - 1 > 1 THEN w - 1 ELSE 1 IN
  CASE kind = "bartlett" -> <<m, 2>>
    [] kind = "hann"     -> <<m, 2>>
    [] kind = "hamming"  -> <<27 * m, 50>>
    [] kind = "blackman" -> <<21 * m, 50>>
WinLen(w) == IF w > 0 THEN w ELSE 0
WinKinds == {"bartlett", "hann", "hamming", "blackman"}
\* the areas are positive and grow linearly: the samples sum to 1 up to O(1/width)
WinAreaPositive == \A k \in WinKinds : \A w \in 0..64 : WinArea(k, w)[1] > 0 /\ WinArea(k, w)[2] > 0

ASSUME C20_ShiftTheorem
ASSUME C20_DefaultDftSize
ASSUME WinAreaPositive
ExportCases == SetToSeq({ [D |-> c.D, p |-> c.p, shift |-> c.shift, start |-> c.start, len |-> c.len,
                           none |-> (c.dsz = None), expected |-> Expected(c)] :
                          c \in { cc \in Cases : cc.D <= 8 \/ (cc.shift \in {-cc.D - 1, -1, 0, 1, cc.D, 2 * cc.D - 1} /\ cc.p <= 2) } })
WinTable == SetToSeq({ [kind |-> k, w |-> w, num |-> WinArea(k, w)[1], den |-> WinArea(k, w)[2], len |-> WinLen(w)] :
                       k \in WinKinds, w \in 0..64 })
ASSUME IOEnv.OUT_FILE = "" \/ JsonSerialize(IOEnv.OUT_FILE, [cases |-> ExportCases, windows |-> WinTable])
ASSUME PrintT(<<"CASES", Cardinality(Cases), Len(ExportCases)>>)
===============================================================================
