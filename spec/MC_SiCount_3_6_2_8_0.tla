---- MODULE MC_SiCount_3_6_2_8_0 ----
EXTENDS SiCount
\* @type: () => Bool;
ConstInit == S = 3 /\ M = 6 /\ T = 2 /\ D = 8 /\ Centered = 0 /\ MaxChunk = 100000
====
