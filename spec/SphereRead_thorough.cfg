CONSTANTS
  Fs <- FsAll
  ReadRule = "whole_frames"
  BUF = 16384
SPECIFICATION Spec
INVARIANT C12_AllPresentFramesInOrder
INVARIANT C12_PrefixAlways
INVARIANT C12_ShortDataWarns
PROPERTY Terminates
CHECK_DEADLOCK FALSE
