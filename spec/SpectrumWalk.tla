----------------------------- MODULE SpectrumWalk -----------------------------
(***************************************************************************)
(* C02 / C14.  How a truncated frequency response (start bin, taps) is     *)
(* paired with the bins of the *half* spectrum that numpy.fft.rfft /       *)
(* torch.fft.rfft return.                                                  *)
(*                                                                         *)
(* Definition (Recipe): the documented reconstruction of the full response *)
(* (LinearFilterBank.get_truncated_response docstring): tap j of a complex *)
(* bank sits on full-spectrum bin b = (start + j) % D.  A real signal's    *)
(* spectrum is Hermitian, so |X[b] H[b]| = |X[D-b] H[b]|: the half-        *)
(* spectrum bin that tap j must multiply is Pair(D, start, j).             *)
(*                                                                         *)
(* Implementation-shaped part: the `while consumed < trunc_len` loops of   *)
(* compute.py (_compute_frame) and torch.py (pytorch_stft_frame_computer), *)
(* one action per loop iteration, with the code's own index expressions    *)
(* and Python slice semantics (negative indices, negative step).           *)
(***************************************************************************)
EXTENDS Integers, Sequences, TLC

CONSTANTS Ds,        \* DFT sizes explored
          Impls,     \* subset of {"numpy", "torch"}
          ParityOf   \* "dft_size" (the code) | "half_len" (canary: the pre-repair expression)

Max(a, b) == IF a > b THEN a ELSE b
Min(a, b) == IF a < b THEN a ELSE b

(* ----------------------------- definition ------------------------------ *)
HalfLen(D) == (D \div 2) + 1
Pair(D, start, j) == LET b == (start + j) % D IN IF b <= D \div 2 THEN b ELSE D - b
Recipe(D, start, tlen) == [j \in 1..tlen |-> Pair(D, start, j - 1)]
\* full-spectrum bin of tap j (used by the valuation layer)
FullBin(D, start, j) == (start + j) % D

(* ------------------------- implementation-shaped ----------------------- *)
VARIABLES D, start, tlen, impl, si, consumed, conj, pairs, steps, oob
vars == <<D, start, tlen, impl, si, consumed, conj, pairs, steps, oob>>

H == HalfLen(D)
Mod == IF ParityOf = "dft_size" THEN D % 2 ELSE H % 2
Done == consumed >= tlen

\* indices selected by a[i:j:-1] on a length-n array (i, j may be negative)
NegSlice(n, i, j) ==
  LET i1 == IF i < 0 THEN i + n ELSE i
      i2 == IF i1 < 0 THEN -1 ELSE IF i1 >= n THEN n - 1 ELSE i1
      j1 == IF j < 0 THEN j + n ELSE j
      j2 == IF j1 < 0 THEN -1 ELSE IF j1 >= n THEN n - 1 ELSE j1
  IN IF i2 <= j2 THEN <<>> ELSE [t \in 1..(i2 - j2) |-> i2 - (t - 1)]
\* indices selected by a[i:j] (forward)
FwdSlice(n, i, j) ==
  LET c(x) == IF x < 0 THEN Max(0, x + n) ELSE Min(x, n)
  IN IF c(j) <= c(i) THEN <<>> ELSE [t \in 1..(c(j) - c(i)) |-> c(i) + t - 1]
Rev(s) == [t \in 1..Len(s) |-> s[Len(s) + 1 - t]]

Segment ==
  /\ ~Done
  /\ LET segConj == Max(0, Min(si + tlen - consumed, H - 2 + Mod) - si)
         segFwd  == Max(0, Min(si + tlen - consumed, H) - si)
         seg == IF conj THEN segConj ELSE segFwd
         idx == IF ~conj THEN FwdSlice(H, si, si + seg)
                ELSE IF impl = "numpy"
                     THEN (IF seg > 0 THEN NegSlice(H, -2 + Mod - si, -2 + Mod - si - seg) ELSE <<>>)
                     ELSE Rev(FwdSlice(H, H - 1 + Mod - si - seg, H - 1 + Mod - si))
         nsi == IF conj THEN si - (H - 2 + Mod) ELSE si - H
     IN /\ pairs' = pairs \o idx
        \* numpy / torch broadcast would fail (or silently mis-pair) if the slice were shorter than the taps
        /\ oob' = (oob \/ Len(idx) # seg)
        /\ consumed' = consumed + seg
        /\ si' = Max(0, nsi)
  /\ conj' = ~conj /\ steps' = steps + 1
  /\ UNCHANGED <<D, start, tlen, impl>>

Init == /\ D \in Ds /\ start \in 0..(D - 1) /\ tlen \in 1..D /\ impl \in Impls
        /\ si = start /\ consumed = 0 /\ conj = FALSE /\ pairs = <<>> /\ steps = 0 /\ oob = FALSE
Next == Segment
Spec == Init /\ [][Next]_vars /\ WF_vars(Next)

C02_WalkPairsEqualRecipe == Done => pairs = Recipe(D, start, tlen)
C02_NoShortSlice == ~oob
\* no zero-progress spinning: two consecutive segments always consume something
WalkProgress == steps <= 2 * ((tlen \div Max(1, H - 2)) + 2)
WalkTerminates == <>Done
===============================================================================
