CONSTANTS
  Ds <- DsQuick
  Impls <- Both
  ParityOf = "dft_size"
SPECIFICATION Spec
INVARIANT C02_WalkPairsEqualRecipe
INVARIANT C02_NoShortSlice
INVARIANT WalkProgress
PROPERTY WalkTerminates
CHECK_DEADLOCK FALSE
