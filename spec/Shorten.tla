--------------------------------- MODULE Shorten ---------------------------------
(***************************************************************************)
(* C13: shorten (version 1-2) streams as embedded in NIST SPHERE files.    *)
(*                                                                         *)
(* Two independent halves over one bit string:                             *)
(*  - an ENCODER, written from the format (Rice codes, polynomial and LPC  *)
(*    predictors, running mean with C's truncating division, bit shift,    *)
(*    block-size changes): a state machine that makes one choice per step  *)
(*    (header, command, coefficient, sample) and appends bits;             *)
(*  - a DECODER, transcribed from _sphere.copy_shortened_samples, as a     *)
(*    function of the bit string (Dec).                                    *)
(* TLC checks in every reachable final state that decoding the encoder's   *)
(* bits gives back the samples the encoder was fed, that every proper      *)
(* prefix which cuts a needed bit makes the decoder run out of input       *)
(* (IOError), and that an unknown command / version is an error.           *)
(*                                                                         *)
(* Generator constraints (the property's own): QLPC only in blocks at      *)
(* least as long as the predictor history; block size only shrinks; with a *)
(* bit shift the samples are multiples of 2^shift; mu-law types only with  *)
(* bit shift 0 (the closed form of row 0 of shorten's outward table).      *)
(***************************************************************************)
EXTENDS Integers, Sequences, FiniteSets, TLC

CONSTANTS Versions, Ftypes, Nchans, Blocksizes, Maxnlpcs, Nmeans,
          Resns, SampleVals, CoefVals, Shifts, MaxBlocks,
          CmdSet,        \* commands the encoder may choose among
          MeanRule       \* the decoder's division: "c99" (the code: truncating, as the format) | "floor" (canary)

FN_DIFF0 == 0  FN_DIFF1 == 1  FN_DIFF2 == 2  FN_DIFF3 == 3  FN_QUIT == 4
FN_BLOCKSIZE == 5  FN_BITSHIFT == 6  FN_QLPC == 7  FN_ZERO == 8
TYPE_AU1 == 0  TYPE_S16HL == 3  TYPE_S16LH == 5  TYPE_AU2 == 8
Max(a, b) == IF a > b THEN a ELSE b
Min(a, b) == IF a < b THEN a ELSE b

(* ------------------------------ bit writer ------------------------------- *)
RECURSIVE Zeros(_)
Zeros(n) == IF n <= 0 THEN <<>> ELSE <<0>> \o Zeros(n - 1)
RECURSIVE LowBits(_, _)
LowBits(v, n) == IF n = 0 THEN <<>> ELSE LowBits(v \div 2, n - 1) \o <<v % 2>>
UvarBits(v, nbin) == Zeros(v \div (2 ^ nbin)) \o <<1>> \o LowBits(v % (2 ^ nbin), nbin)
VarBits(v, nbin) == UvarBits(IF v >= 0 THEN 2 * v ELSE 2 * (-v - 1) + 1, nbin + 1)
RECURSIVE BitLen(_)
BitLen(v) == IF v = 0 THEN 0 ELSE 1 + BitLen(v \div 2)
UlongBits(v) == UvarBits(BitLen(v), 2) \o UvarBits(v, BitLen(v))

(* ------------------------------ bit reader ------------------------------- *)
\* every reader returns <<value, next position>>; value -1 with position 0 means "ran out of input"
RECURSIVE CountZeros(_, _)
CountZeros(bits, pos) == IF pos > Len(bits) THEN -1 ELSE IF bits[pos] = 1 THEN 0
                         ELSE LET r == CountZeros(bits, pos + 1) IN IF r < 0 THEN -1 ELSE r + 1
RECURSIVE ReadBits(_, _, _, _)
ReadBits(bits, pos, n, acc) == IF n = 0 THEN acc ELSE ReadBits(bits, pos + 1, n - 1, 2 * acc + bits[pos])
EOI == <<-1, 0>>
UvarGet(bits, pos, nbin) ==
  IF pos = 0 THEN EOI ELSE
  LET z == CountZeros(bits, pos) IN
  IF z < 0 \/ pos + z + nbin > Len(bits) THEN EOI
  ELSE << ReadBits(bits, pos + z + 1, nbin, z), pos + z + 1 + nbin >>
VarGet(bits, pos, nbin) ==
  LET r == UvarGet(bits, pos, nbin + 1) IN
  IF r[2] = 0 THEN EOI ELSE << IF r[1] % 2 = 1 THEN -(r[1] \div 2) - 1 ELSE r[1] \div 2, r[2] >>
UlongGet(bits, pos) == LET n == UvarGet(bits, pos, 2) IN IF n[2] = 0 THEN EOI ELSE UvarGet(bits, n[2], n[1])

(* --------------------------- shared arithmetic ---------------------------- *)
TruncDiv(a, b) == IF a >= 0 THEN a \div b ELSE -((-a) \div b)      \* C99 division
MeanDiv(a, b, rule) == IF rule = "c99" THEN TruncDiv(a, b) ELSE a \div b
RECURSIVE SumSeq(_)
SumSeq(s) == IF s = <<>> THEN 0 ELSE Head(s) + SumSeq(Tail(s))
Coffset(offs, nmean, version, bitshift, rule) ==
  IF nmean = 0 THEN offs[1]
  ELSE LET sm == (IF version < 2 THEN 0 ELSE nmean \div 2) + SumSeq(SubSeq(offs, 1, nmean))
       IN IF version < 2 THEN MeanDiv(sm, nmean, rule) ELSE MeanDiv(sm, nmean, rule) \div (2 ^ bitshift)
NewOffs(offs, nmean, version, bitshift, blk, rule) ==
  IF nmean = 0 THEN offs
  ELSE LET sm == (IF version < 2 THEN 0 ELSE Len(blk) \div 2) + SumSeq(blk)
           m == MeanDiv(sm, Len(blk), rule) * (IF version >= 2 THEN 2 ^ bitshift ELSE 1)
       IN SubSeq(offs, 2, nmean) \o <<m>>
\* row 0 of shorten's mu-law outward table (closed form) and its use for the two AU types
Outward0(v) == IF v = -128 THEN 127 ELSE IF v < 0 THEN v + 127 ELSE 255 - v
FixAU(ftype, v) == IF ftype = TYPE_AU1 THEN Outward0(v)
                   ELSE IF v >= 0 THEN Outward0(v) ELSE IF v = -1 THEN 127 ELSE Outward0(v + 1)
IsAU(ftype) == ftype \in {TYPE_AU1, TYPE_AU2}
\* what a decoded (shifted-domain) value becomes in the output
Emit(ftype, bitshift, v) == IF IsAU(ftype) THEN FixAU(ftype, v) ELSE v * (2 ^ bitshift)
\* prediction of sample i of buf (1-based; history included) for the polynomial predictors
Poly(cmd, buf, i, coff) ==
  CASE cmd = FN_DIFF0 -> coff
    [] cmd = FN_DIFF1 -> buf[i - 1]
    [] cmd = FN_DIFF2 -> 2 * buf[i - 1] - buf[i - 2]
    [] cmd = FN_DIFF3 -> 3 * (buf[i - 1] - buf[i - 2]) + buf[i - 3]

(* -------------------------------- encoder --------------------------------- *)
VARIABLES hdr, bits, blocksize, bitshift, chan, hist, offs, phase, cur, data, nblocks, note
vars == <<hdr, bits, blocksize, bitshift, chan, hist, offs, phase, cur, data, nblocks, note>>
Nwrap == Max(3, hdr.maxnlpc)
Lpcqoffset == IF hdr.version > 1 THEN 32 ELSE 0

HeaderBits(h) == UlongBits(h.ftype) \o UlongBits(h.nchan) \o UlongBits(h.bs) \o UlongBits(h.maxnlpc)
                 \o UlongBits(h.nmean) \o UlongBits(0)
Init ==
  /\ hdr \in [version : Versions, ftype : Ftypes, nchan : Nchans, bs : Blocksizes, maxnlpc : Maxnlpcs, nmean : Nmeans]
  /\ bits = HeaderBits(hdr) /\ blocksize = hdr.bs /\ bitshift = 0 /\ chan = 1
  /\ hist = [c \in 1..hdr.nchan |-> [i \in 1..Max(3, hdr.maxnlpc) |-> 0]]
  /\ offs = [c \in 1..hdr.nchan |-> [i \in 1..Max(1, hdr.nmean) |-> 0]]
  /\ phase = "cmd" /\ cur = [cmd |-> -1, resn |-> 0, coefs |-> <<>>, nlpc |-> 0, blk |-> <<>>]
  /\ data = [c \in 1..hdr.nchan |-> <<>>] /\ nblocks = 0 /\ note = <<>>

\* residuals of a finished block for channel `chan`, by the format's predictors (shifted domain)
Residuals(cmd, blk, h, coff, coefs) ==
  LET buf == h \o blk
      nw == Len(h)
  IN IF cmd = FN_QLPC
     THEN \* history and block are de-meaned, predicted with the quantised LPC filter (>> 5), then re-meaned
          LET nl == Len(coefs)
              b2 == [i \in 1..Len(buf) |-> IF i > nw - nl THEN buf[i] - coff ELSE buf[i]]
              pred(i) == LET S[j \in 0..nl] == IF j = 0 THEN Lpcqoffset ELSE S[j - 1] + coefs[j] * b2[i - j] IN S[nl] \div 32
          IN [k \in 1..Len(blk) |-> b2[nw + k] - pred(nw + k)]
     ELSE [k \in 1..Len(blk) |-> buf[nw + k] - Poly(cmd, buf, nw + k, coff)]
RECURSIVE VarSeqBits(_, _)
VarSeqBits(s, nbin) == IF s = <<>> THEN <<>> ELSE VarBits(Head(s), nbin) \o VarSeqBits(Tail(s), nbin)

OpenBlock(cmd, resn, nlpc) ==
  /\ phase = "cmd" /\ (nblocks < MaxBlocks \/ chan # 1)
  /\ cmd = FN_QLPC => (nlpc <= hdr.maxnlpc /\ blocksize >= Nwrap)
  /\ cmd # FN_QLPC => nlpc = 0
  /\ cur' = [cmd |-> cmd, resn |-> resn, coefs |-> <<>>, nlpc |-> nlpc, blk |-> <<>>]
  /\ phase' = IF cmd = FN_ZERO THEN "close" ELSE IF nlpc > 0 THEN "coefs" ELSE "samples"
  /\ UNCHANGED <<hdr, bits, blocksize, bitshift, chan, hist, offs, data, nblocks, note>>
AddCoeff(c) ==
  /\ phase = "coefs"
  /\ cur' = [cur EXCEPT !.coefs = Append(cur.coefs, c)]
  /\ phase' = IF Len(cur.coefs) + 1 = cur.nlpc THEN "samples" ELSE "coefs"
  /\ UNCHANGED <<hdr, bits, blocksize, bitshift, chan, hist, offs, data, nblocks, note>>
AddSample(v) ==
  /\ phase = "samples"
  /\ (IsAU(hdr.ftype) => (v >= -128 /\ v <= 127))
  /\ cur' = [cur EXCEPT !.blk = Append(cur.blk, v)]
  /\ phase' = IF Len(cur.blk) + 1 = blocksize THEN "close" ELSE "samples"
  /\ UNCHANGED <<hdr, bits, blocksize, bitshift, chan, hist, offs, data, nblocks, note>>
CloseBlock ==
  /\ phase = "close"
  /\ LET blk == IF cur.cmd = FN_ZERO THEN [i \in 1..blocksize |-> 0] ELSE cur.blk
         coff == Coffset(offs[chan], hdr.nmean, hdr.version, bitshift, "c99")
         res == IF cur.cmd = FN_ZERO THEN <<>> ELSE Residuals(cur.cmd, blk, hist[chan], coff, cur.coefs)
         body == IF cur.cmd = FN_ZERO THEN <<>>
                 ELSE UvarBits(cur.resn, 3)
                      \o (IF cur.cmd = FN_QLPC THEN UvarBits(cur.nlpc, 2) \o VarSeqBits(cur.coefs, 5) ELSE <<>>)
                      \o VarSeqBits(res, cur.resn)
         full == hist[chan] \o blk
     IN /\ bits' = bits \o UvarBits(cur.cmd, 2) \o body
        /\ hist' = [hist EXCEPT ![chan] = SubSeq(full, Len(full) - Nwrap + 1, Len(full))]
        /\ offs' = [offs EXCEPT ![chan] = NewOffs(offs[chan], hdr.nmean, hdr.version, bitshift, blk, "c99")]
        /\ data' = [data EXCEPT ![chan] = data[chan] \o [i \in 1..Len(blk) |-> Emit(hdr.ftype, bitshift, blk[i])]]
        /\ note' = Append(note, cur.cmd)
  /\ chan' = IF chan = hdr.nchan THEN 1 ELSE chan + 1
  /\ nblocks' = nblocks + 1 /\ phase' = "cmd"
  /\ UNCHANGED <<hdr, blocksize, bitshift, cur>>
\* (any size up to the one the header announced - the decoder's buffers are allocated for that -, smaller OR larger
\* than the one in force: an encoder shortens a block before a cut and returns to the full size afterwards)
SetBlocksize(b) ==
  /\ phase = "cmd" /\ chan = 1 /\ b # blocksize /\ b >= 1 /\ b <= hdr.bs /\ nblocks < MaxBlocks /\ Len(note) < MaxBlocks + 1
  /\ bits' = bits \o UvarBits(FN_BLOCKSIZE, 2) \o UlongBits(b) /\ blocksize' = b /\ note' = Append(note, FN_BLOCKSIZE)
  /\ UNCHANGED <<hdr, bitshift, chan, hist, offs, phase, cur, data, nblocks>>
\* The shift is decoder-wide state and BITSHIFT may stand before ANY block: an encoder emits it between the channel
\* blocks of one frame when the channels have different numbers of always-zero low bits.
SetBitshift(s) ==
  /\ phase = "cmd" /\ s # bitshift /\ ~IsAU(hdr.ftype) /\ (nblocks < MaxBlocks \/ chan # 1) /\ Len(note) < MaxBlocks + 2
  /\ bits' = bits \o UvarBits(FN_BITSHIFT, 2) \o UvarBits(s, 2) /\ bitshift' = s /\ note' = Append(note, FN_BITSHIFT)
  /\ UNCHANGED <<hdr, blocksize, chan, hist, offs, phase, cur, data, nblocks>>
Quit ==
  /\ phase = "cmd" /\ chan = 1
  /\ bits' = bits \o UvarBits(FN_QUIT, 2) /\ phase' = "done" /\ note' = Append(note, FN_QUIT)
  /\ UNCHANGED <<hdr, blocksize, bitshift, chan, hist, offs, cur, data, nblocks>>

NOpen == \E cmd \in CmdSet \cap {FN_DIFF0, FN_DIFF1, FN_DIFF2, FN_DIFF3, FN_ZERO} : \E r \in Resns : OpenBlock(cmd, r, 0)
NOpenLpc == FN_QLPC \in CmdSet /\ \E r \in Resns : \E n \in 0..hdr.maxnlpc : OpenBlock(FN_QLPC, r, n)
NCoeff == \E c \in CoefVals : AddCoeff(c)
NSample == \E v \in SampleVals : AddSample(v)
NBlocksize == FN_BLOCKSIZE \in CmdSet /\ \E b \in Blocksizes : SetBlocksize(b)
NBitshift == FN_BITSHIFT \in CmdSet /\ \E s \in Shifts : SetBitshift(s)
Next == NOpen \/ NOpenLpc \/ NCoeff \/ NSample \/ CloseBlock \/ NBlocksize \/ NBitshift \/ Quit
Spec == Init /\ [][Next]_vars

(* -------------------------------- decoder --------------------------------- *)
\* transcription of copy_shortened_samples on a bit string (after the magic and version byte);
\* d: [pos, buf, offs, bs, shift, chan, out (per channel), err, steps]
DErr(d, e) == [d EXCEPT !.err = e]
RECURSIVE ReadVars(_, _, _, _, _)
\* n values var_get(nbin) -> <<seq, pos>> (pos 0: out of input)
ReadVars(b, pos, n, nbin, acc) ==
  IF n = 0 THEN <<acc, pos>> ELSE
  LET r == VarGet(b, pos, nbin) IN IF r[2] = 0 THEN <<acc, 0>> ELSE ReadVars(b, r[2], n - 1, nbin, Append(acc, r[1]))
\* reconstruct a block given residuals (the decoder's loops)
RECURSIVE Recon(_, _, _, _, _, _, _)
Recon(cmd, buf, i, res, coff, coefs, lq) ==
  IF res = <<>> THEN buf ELSE
  LET v == IF cmd = FN_QLPC
           THEN LET nl == Len(coefs)
                    S[j \in 0..nl] == IF j = 0 THEN lq ELSE S[j - 1] + coefs[j] * buf[i - j]
                IN Head(res) + (S[nl] \div 32)
           ELSE Head(res) + Poly(cmd, buf, i, coff)
  IN Recon(cmd, [buf EXCEPT ![i] = v], i + 1, Tail(res), coff, coefs, lq)

RECURSIVE DecLoop(_, _, _, _)
DecLoop(b, h, d, fuel) ==
  IF d.err # "" \/ fuel = 0 THEN (IF fuel = 0 THEN DErr(d, "nonterminating") ELSE d) ELSE
  LET nwrap == Max(3, h.maxnlpc)
      c == UvarGet(b, d.pos, 2)
  IN IF c[2] = 0 THEN DErr(d, "IOError")
     ELSE IF c[1] = FN_QUIT THEN [d EXCEPT !.pos = c[2], !.err = "done"]
     ELSE IF c[1] \in {FN_ZERO, FN_DIFF0, FN_DIFF1, FN_DIFF2, FN_DIFF3, FN_QLPC}
     THEN LET cmd == c[1]
              rs == IF cmd = FN_ZERO THEN <<0, c[2]>> ELSE UvarGet(b, c[2], 3)
          IN IF rs[2] = 0 THEN DErr(d, "IOError") ELSE
             LET coff == Coffset(d.offs[d.chan], h.nmean, h.version, d.shift, MeanRule)
                 nl == IF cmd = FN_QLPC THEN UvarGet(b, rs[2], 2) ELSE <<0, rs[2]>>
             IN IF nl[2] = 0 THEN DErr(d, "IOError") ELSE
                LET cf == ReadVars(b, nl[2], nl[1], 5, <<>>)
                IN IF cf[2] = 0 THEN DErr(d, "IOError") ELSE
                   LET rr == IF cmd = FN_ZERO THEN <<[i \in 1..d.bs |-> 0], cf[2]>> ELSE ReadVars(b, cf[2], d.bs, rs[1], <<>>)
                   IN IF rr[2] = 0 THEN DErr(d, "IOError") ELSE
                      LET cb0 == d.buf[d.chan]
                          \* QLPC: cbuffer[nwrap - nlpc : nwrap] -= coffset (in place, never restored)
                          cb1 == IF cmd = FN_QLPC THEN [i \in 1..Len(cb0) |-> IF i > nwrap - nl[1] /\ i <= nwrap THEN cb0[i] - coff ELSE cb0[i]] ELSE cb0
                          cb2 == IF cmd = FN_ZERO THEN [i \in 1..Len(cb1) |-> IF i > nwrap /\ i <= nwrap + d.bs THEN 0 ELSE cb1[i]]
                                 ELSE Recon(cmd, cb1, nwrap + 1, rr[1], coff, cf[1], IF h.version > 1 THEN 32 ELSE 0)
                          cb3 == IF cmd = FN_QLPC /\ coff # 0 THEN [i \in 1..Len(cb2) |-> IF i > nwrap /\ i <= nwrap + d.bs THEN cb2[i] + coff ELSE cb2[i]] ELSE cb2
                          blk == SubSeq(cb3, nwrap + 1, nwrap + d.bs)
                          no == NewOffs(d.offs[d.chan], h.nmean, h.version, d.shift, blk, MeanRule)
                          \* wrap: cbuffer[:nwrap] = cbuffer[blocksize : blocksize + nwrap]
                          cb4 == [i \in 1..Len(cb3) |-> IF i <= nwrap THEN cb3[d.bs + i] ELSE cb3[i]]
                          emitted == [i \in 1..d.bs |-> Emit(h.ftype, d.shift, blk[i])]
                      IN DecLoop(b, h, [d EXCEPT !.pos = rr[2], !.buf[d.chan] = cb4, !.offs[d.chan] = no,
                                                  !.out[d.chan] = d.out[d.chan] \o emitted,
                                                  !.chan = IF d.chan = h.nchan THEN 1 ELSE d.chan + 1], fuel - 1)
     ELSE IF c[1] = FN_BLOCKSIZE
     THEN LET v == UlongGet(b, c[2]) IN IF v[2] = 0 THEN DErr(d, "IOError") ELSE DecLoop(b, h, [d EXCEPT !.pos = v[2], !.bs = v[1]], fuel - 1)
     ELSE IF c[1] = FN_BITSHIFT
     THEN LET v == UvarGet(b, c[2], 2) IN IF v[2] = 0 THEN DErr(d, "IOError") ELSE DecLoop(b, h, [d EXCEPT !.pos = v[2], !.shift = v[1]], fuel - 1)
     ELSE DErr(d, "IOError_unknown_command")

\* the whole decoder: header first
Dec(version, b) ==
  IF version \notin {1, 2} THEN [err |-> "IOError_version", out |-> <<>>] ELSE
  LET f1 == UlongGet(b, 1)
      f2 == UlongGet(b, f1[2])
      f3 == UlongGet(b, f2[2])
      f4 == UlongGet(b, f3[2])
      f5 == UlongGet(b, f4[2])
      f6 == UlongGet(b, f5[2])
  IN IF f6[2] = 0 THEN [err |-> "IOError", out |-> <<>>]
     ELSE IF f1[1] >= 9 THEN [err |-> "IOError_type", out |-> <<>>]
     ELSE LET h == [version |-> version, ftype |-> f1[1], nchan |-> f2[1], bs |-> f3[1], maxnlpc |-> f4[1], nmean |-> f5[1]]
              nwrap == Max(3, h.maxnlpc)
              d0 == [pos |-> f6[2], buf |-> [c \in 1..h.nchan |-> [i \in 1..(h.bs + nwrap) |-> 0]],
                     offs |-> [c \in 1..h.nchan |-> [i \in 1..Max(1, h.nmean) |-> 0]],
                     bs |-> h.bs, shift |-> 0, chan |-> 1, out |-> [c \in 1..h.nchan |-> <<>>], err |-> "", steps |-> 0]
              r == DecLoop(b, h, d0, 4 * (MaxBlocks + 3) + 8)
          IN [err |-> r.err, out |-> r.out]

(* ------------------------------- properties -------------------------------- *)
Final == phase = "done"
C13_DecodeOfEncodeIsIdentity == Final => LET r == Dec(hdr.version, bits) IN r.err = "done" /\ r.out = data
\* a stream cut anywhere before its last needed bit never yields data: the decoder runs out of input
C13_TruncatedStreamIsIOError ==
  Final => \A n \in 0..(Len(bits) - 1) : Dec(hdr.version, SubSeq(bits, 1, n)).err \in {"IOError"}
C13_UnknownVersion == Final => Dec(3, bits).err = "IOError_version" /\ Dec(0, bits).err = "IOError_version"
\* a command code outside the format (uvar value 9 with 2 low bits) instead of QUIT is an error
C13_UnknownCommand ==
  Final => LET cut == SubSeq(bits, 1, Len(bits) - Len(UvarBits(FN_QUIT, 2)))
           IN Dec(hdr.version, cut \o UvarBits(9, 2)).err = "IOError_unknown_command"
DecoderTerminates == Final => Dec(hdr.version, bits).err # "nonterminating"
===============================================================================
