CONSTANTS
  Versions <- V12
  Ftypes = {5}
  Nchans = {1}
  Blocksizes = {1, 2}
  Maxnlpcs = {0}
  Nmeans = {0, 2}
  Resns = {0, 2}
  SampleVals <- TinyVals
  CoefVals = {0}
  Shifts = {0, 1}
  MaxBlocks = 2
  CmdSet <- TinyCmds
  MeanRule = "c99"
SPECIFICATION Spec
INVARIANT C13_DecodeOfEncodeIsIdentity
INVARIANT C13_TruncatedStreamIsIOError
INVARIANT C13_UnknownVersion
INVARIANT C13_UnknownCommand
INVARIANT DecoderTerminates
CHECK_DEADLOCK FALSE
