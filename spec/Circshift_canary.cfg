CONSTANTS
  MaxD = 4
  OrderRule = "mod_first"
