CONSTANTS
  MaxClasses = 4
  Aliases = {"x", "y"}
  WalkOrder = "post"
SPECIFICATION Spec
INVARIANT C08_ResolvesToMatchingDescendant
INVARIANT C08_UnknownAliasIsValueError
INVARIANT C08_FoundIfExists
INVARIANT C08_LastRegisteredWins
INVARIANT WalkFunctionAgrees
PROPERTY ResolveTerminates
CHECK_DEADLOCK FALSE
