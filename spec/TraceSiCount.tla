------------------------------- MODULE TraceSiCount -------------------------------
(***************************************************************************)
(* Trace validation at REAL sizes against the count-level SI machine:      *)
(* recorded compute_chunk / finalize calls of a real SIFrameComputer with  *)
(* the frames returned and the private counters after each call.           *)
(* Property level (alarm): frames up to and including finalize number      *)
(* (fed + S div 2) div S; started follows the protocol.                    *)
(* Implementation level (reported only): per-call counts and counters are  *)
(* those of SiCount's formulas.                                            *)
(***************************************************************************)
EXTENDS Integers, Sequences, TLC, Json, IOUtils
Traces == ndJsonDeserialize(IOEnv.TRACE_FILE)
VARIABLES started, skip, xRem, yRem, fed, emitted, diverged, tid, l, nfail
vars == <<started, skip, xRem, yRem, fed, emitted, diverged, tid, l, nfail>>
C == Traces[tid].cfg
Ev == Traces[tid].events[l]
Max0(x) == IF x > 0 THEN x ELSE 0
Min(a, b) == IF a < b THEN a ELSE b
Vv == C.D - C.M + 1
Kk == IF C.centered THEN C.T - C.S ELSE C.T
Sk == IF started THEN skip ELSE Max0(Kk)
Xr == IF started THEN xRem ELSE Max0(-Kk)
Yr == IF started THEN yRem ELSE 0
ChNf(sk, xr, yr, c) == Max0(((xr + c - Min(sk, c) + yr) \div C.S) - 1)
ChNd(sk, xr, yr, c) ==
  LET numRaw == xr + c - Min(sk, c)
      nd0 == numRaw \div Vv
      nfr == ChNf(sk, xr, yr, c)
      nproc == IF nfr > 0 THEN (nfr + 1) * C.S ELSE yr
  IN IF nproc - yr > nd0 * Vv THEN nd0 + 1 ELSE nd0
Why == IF Ev.a = "chunk" THEN (IF ~Ev.st THEN "C04_StartedAfterChunk" ELSE "")
       ELSE IF Ev.st THEN "C04_NotStartedAfterFinalize"
       ELSE IF emitted + Ev.nret # (fed + (C.S \div 2)) \div C.S THEN "C03_FrameCount" ELSE ""
ImplOK ==
  IF Ev.a = "chunk"
  THEN LET numRaw == Xr + Ev.c - Min(Sk, Ev.c)
           nd == ChNd(Sk, Xr, Yr, Ev.c)
           nfr == ChNf(Sk, Xr, Yr, Ev.c)
       IN /\ Ev.nret = nfr /\ Ev.p.skip = Sk - Min(Sk, Ev.c)
          /\ Ev.p.xRem = Max0(numRaw - nd * Vv)
          /\ Ev.p.yRem = Yr + Min(nd * Vv, numRaw) - nfr * C.S
  ELSE TRUE
Step == /\ tid <= Len(Traces) /\ l <= Len(Traces[tid].events) /\ Why = ""
        /\ diverged' = (diverged \/ ~ImplOK)
        /\ IF ~diverged /\ ~ImplOK THEN PrintT(<<"DIVERGED", Traces[tid].tid, l>>) ELSE TRUE
        /\ IF Ev.a = "chunk"
           THEN /\ started' = TRUE /\ skip' = Ev.p.skip /\ xRem' = Ev.p.xRem /\ yRem' = Ev.p.yRem
                /\ fed' = fed + Ev.c /\ emitted' = emitted + Ev.nret
           ELSE /\ started' = FALSE /\ skip' = 0 /\ xRem' = 0 /\ yRem' = 0 /\ fed' = 0 /\ emitted' = 0
        /\ l' = l + 1 /\ UNCHANGED <<tid, nfail>>
Advance ==
  /\ tid <= Len(Traces)
  /\ LET exhausted == l > Len(Traces[tid].events)
         failed == ~exhausted /\ Why # ""
     IN /\ exhausted \/ failed
        /\ IF failed THEN PrintT(<<"REJECTED", Traces[tid].tid, l, Why>>) ELSE TRUE
        /\ nfail' = nfail + (IF failed THEN 1 ELSE 0)
        /\ tid' = tid + 1 /\ l' = 1
        /\ started' = FALSE /\ skip' = 0 /\ xRem' = 0 /\ yRem' = 0 /\ fed' = 0 /\ emitted' = 0 /\ diverged' = FALSE
        /\ IF tid = Len(Traces) THEN PrintT(<<"DONE", Len(Traces), nfail'>>) ELSE TRUE
TInit == /\ tid = 1 /\ l = 1 /\ nfail = 0 /\ started = FALSE /\ skip = 0 /\ xRem = 0 /\ yRem = 0
         /\ fed = 0 /\ emitted = 0 /\ diverged = FALSE
TNext == Step \/ Advance
TSpec == TInit /\ [][TNext]_vars
===============================================================================
