----------------------------- MODULE PostLayoutCases -----------------------------
(* spec -> code: the layout maps of every case in IN_FILE (JSON array), to OUT_FILE *)
EXTENDS PostLayout, Json, IOUtils
Cases == JsonDeserialize(IOEnv.IN_FILE)
Row(c) ==
  IF c.op = "stack"
  THEN LET nd == Len(c.shape) a == Ax(c.axis, nd) t == Ax(c.time_axis, nd) IN
       [op |-> "stack", shape |-> StackShape(c.shape, a, t, c.V, c.pad), map |-> StackMap(c.shape, a, t, c.V, c.pad)]
  ELSE LET nd == Len(c.shape) a == Ax(c.axis, nd)
           tgt == Ax(c.target_axis, IF c.cat THEN nd ELSE nd + 1) IN
       [op |-> "deltas", shape |-> DeltaShape(c.shape, tgt, c.K, c.cat),
        map |-> DeltaMap(c.shape, a, tgt, c.K, c.cat, c.W, c.mode)]
Table == [i \in 1..Len(Cases) |-> Row(Cases[i])]
ASSUME JsonSerialize(IOEnv.OUT_FILE, Table)
ASSUME PrintT(<<"EXPORTED", Len(Table)>>)
===============================================================================
