CONSTANTS
  MaxD = 7
  OrderRule = "default_first"
