CONSTANTS
  MaxClasses = 5
  Aliases = {"x", "y", "z"}
  WalkOrder = "post"
SPECIFICATION Spec
INVARIANT C08_ResolvesToMatchingDescendant
INVARIANT C08_UnknownAliasIsValueError
INVARIANT C08_FoundIfExists
INVARIANT C08_LastRegisteredWinsOrKnown
INVARIANT WalkFunctionAgrees
PROPERTY ResolveTerminates
CHECK_DEADLOCK FALSE
