CONSTANTS
  MaxD = 10
  OrderRule = "default_first"
