\* constant evaluation
