CONSTANTS
  Configs <- CfgTiny
  MaxN = 8
  MaxUtt = 2
  Dtypes <- DtQuick
  KeepRule = "code"
SPECIFICATION Spec
INVARIANT NoAssertFail
INVARIANT C03_FrameCount
INVARIANT C01_SiStreamEqualsDef
INVARIANT C03_FullIsDefinition
INVARIANT C03_EachPairOnce
INVARIANT C04_StartedExactly
PROPERTY C04_RefusalIsNoOp
PROPERTY C03_DtypeRule
CHECK_DEADLOCK FALSE
