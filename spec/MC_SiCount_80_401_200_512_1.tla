---- MODULE MC_SiCount_80_401_200_512_1 ----
EXTENDS SiCount
\* @type: () => Bool;
ConstInit == S = 80 /\ M = 401 /\ T = 200 /\ D = 512 /\ Centered = 1 /\ MaxChunk = 100000
====
