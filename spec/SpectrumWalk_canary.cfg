CONSTANTS
  Ds <- DsTiny
  Impls <- Both
  ParityOf = "half_len"
SPECIFICATION Spec
INVARIANT C02_WalkPairsEqualRecipe
INVARIANT C02_NoShortSlice
INVARIANT WalkProgress
PROPERTY WalkTerminates
CHECK_DEADLOCK FALSE
