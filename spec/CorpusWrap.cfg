\* constant evaluation
