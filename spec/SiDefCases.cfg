\* constant evaluation only
