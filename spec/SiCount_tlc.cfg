CONSTANTS
  S = 2
  M = 5
  T = 2
  D = 8
  Centered = 0
  MaxChunk = 20
SPECIFICATION Spec
CONSTRAINT Bounded
INVARIANT IndInv
INVARIANT C03_FrameCount
CHECK_DEADLOCK FALSE
