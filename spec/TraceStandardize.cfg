CONSTANTS
  NInst = 3
  Vecs = {}
  Paths <- PathsT
  Keys = {}
  MaxOps = 1000
  TemplateDims = {}
  OverwriteRule = "documented"
SPECIFICATION TSpec
INVARIANT C16_StatsAreBagSum
INVARIANT C17_FileHoldsWhatWasSaved
INVARIANT C17_KeysDistinct
CHECK_DEADLOCK FALSE
