---- MODULE MC_StftCount_6_1_2 ----
EXTENDS StftCount
\* @type: () => Bool;
ConstInit == L = 6 /\ S = 1 /\ Style = 2 /\ MaxChunk = 100000
====
