CONSTANTS
  Versions = {2}
  Ftypes = {5}
  Nchans = {1}
  Blocksizes = {1, 2}
  Maxnlpcs = {0}
  Nmeans = {0}
  Resns = {1}
  SampleVals <- TinyVals
  CoefVals = {0}
  Shifts = {0}
  MaxBlocks = 3
  CmdSet <- BsCmds
  MeanRule = "c99"
SPECIFICATION Spec
INVARIANT C13_DecodeOfEncodeIsIdentity
INVARIANT C13_TruncatedStreamIsIOError
INVARIANT DecoderTerminates
CHECK_DEADLOCK FALSE
