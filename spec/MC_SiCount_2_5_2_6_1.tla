---- MODULE MC_SiCount_2_5_2_6_1 ----
EXTENDS SiCount
\* @type: () => Bool;
ConstInit == S = 2 /\ M = 5 /\ T = 2 /\ D = 6 /\ Centered = 1 /\ MaxChunk = 100000
====
