----------------------------- MODULE TraceStftDef -----------------------------
(***************************************************************************)
(* Trace validation, code -> spec, at the level of the properties' own     *)
(* observables (C01, C02, C04 for the STFT computer): each recorded public *)
(* call of a real STFTFrameComputer - with the token content of every      *)
(* frame it handed to _compute_frame and the public `started` flag - must  *)
(* be a step of the definition-level machine below, which is FrameDef plus *)
(* the documented protocol (started, refusals).  Nothing about private     *)
(* state is demanded here (that is TraceStftImpl).                         *)
(*                                                                         *)
(* Batched: TRACE_FILE holds one trace per line; a rejected trace is       *)
(* reported as <<"REJECTED", tid, line, clause>> and the batch goes on.    *)
(***************************************************************************)
EXTENDS FrameDef, TLC, Json, IOUtils

Traces == ndJsonDeserialize(IOEnv.TRACE_FILE)

VARIABLES cfg, inprog, utt, fed, out, tid, l, nfail
vars == <<cfg, inprog, utt, fed, out, tid, l, nfail>>

Ev == Traces[tid].events[l]
CurUtt == IF inprog THEN utt ELSE utt + 1
CurFed == IF inprog THEN fed ELSE 0
CurOut == IF inprog THEN out ELSE <<>>
Def(n, u) == FullFrames(n, cfg.L, cfg.S, cfg.st, u)

\* the clause of the properties an event breaks ("" if none)
Why ==
  CASE Ev.a = "chunk" ->
         IF Ev.err THEN "C04_ChunkNeverRefused"
         ELSE IF ~Ev.st THEN "C04_StartedAfterChunk" ELSE ""
    [] Ev.a = "finalize" ->
         IF Ev.err THEN "C04_FinalizeNeverRefused"
         ELSE IF Ev.st THEN "C04_NotStartedAfterFinalize"
         ELSE IF Len(CurOut \o Ev.fr) # NumFrames(CurFed, cfg.L, cfg.S) THEN "C01_FrameCount"
         ELSE IF CurOut \o Ev.fr # Def(CurFed, CurUtt) THEN "C01_StreamEqualsFull" ELSE ""
    [] Ev.a \in {"full", "fbf"} ->
         IF inprog
         THEN IF ~Ev.err THEN "C04_RefuseMidUtterance"
              ELSE IF ~Ev.st THEN "C04_RefusalIsNoOp" ELSE ""
         ELSE IF Ev.err THEN "C04_RefusedWhileIdle"
              ELSE IF Ev.st THEN "C04_NotStartedAfterFull"
              ELSE IF Len(Ev.fr) # NumFrames(Ev.n, cfg.L, cfg.S) THEN "C02_FrameCount"
              ELSE IF Ev.fr # Def(Ev.n, utt + 1)
                   THEN (IF Ev.a = "full" THEN "C02_FullIsDefinition" ELSE "C01_FbFEqualsFull")
                   ELSE ""
    [] OTHER -> "unknown_event"

Step ==
  /\ tid <= Len(Traces) /\ l <= Len(Traces[tid].events)
  /\ Why = ""
  /\ CASE Ev.a = "chunk" ->
            /\ inprog' = TRUE /\ utt' = CurUtt /\ fed' = CurFed + Ev.c /\ out' = CurOut \o Ev.fr
       [] Ev.a = "finalize" ->
            /\ inprog' = FALSE /\ utt' = CurUtt /\ fed' = CurFed /\ out' = CurOut \o Ev.fr
       [] OTHER ->  \* full / fbf
            IF inprog THEN UNCHANGED <<inprog, utt, fed, out>>
            ELSE /\ inprog' = FALSE /\ utt' = utt + 1 /\ fed' = Ev.n /\ out' = Ev.fr
  /\ l' = l + 1 /\ UNCHANGED <<cfg, tid, nfail>>

Fresh(t) == /\ cfg' = Traces[t].cfg /\ inprog' = FALSE /\ utt' = 0 /\ fed' = 0 /\ out' = <<>>

Advance ==
  /\ tid <= Len(Traces)
  /\ LET exhausted == l > Len(Traces[tid].events)
         failed == ~exhausted /\ ~ENABLED Step
     IN /\ exhausted \/ failed
        /\ IF failed THEN PrintT(<<"REJECTED", Traces[tid].tid, l, Why>>) ELSE TRUE
        /\ nfail' = nfail + (IF failed THEN 1 ELSE 0)
        /\ tid' = tid + 1 /\ l' = 1
        /\ IF tid < Len(Traces) THEN Fresh(tid + 1)
           ELSE /\ PrintT(<<"DONE", Len(Traces), nfail'>>)
                /\ UNCHANGED <<cfg, inprog, utt, fed, out>>

TInit == /\ tid = 1 /\ l = 1 /\ nfail = 0
         /\ cfg = Traces[1].cfg /\ inprog = FALSE /\ utt = 0 /\ fed = 0 /\ out = <<>>
TNext == Step \/ Advance
TSpec == TInit /\ [][TNext]_vars
===============================================================================
