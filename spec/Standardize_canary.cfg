CONSTANTS
  NInst = 2
  Vecs <- VecsQ
  Paths <- PathsQ
  Keys <- KeysQ
  MaxOps = 4
  TemplateDims = {1, 2}
  OverwriteRule = "inverted"
SPECIFICATION Spec
INVARIANT C16_StatsAreBagSum
INVARIANT C16_CountIsBagSize
INVARIANT C17_FileHoldsWhatWasSaved
INVARIANT C17_KeysDistinct
PROPERTY C16_DimMismatchIsNoChange
PROPERTY C17_OverwriteRule
CHECK_DEADLOCK FALSE
