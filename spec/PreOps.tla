--------------------------------- MODULE PreOps ---------------------------------
(***************************************************************************)
(* C18: pre-processors (pre.py) over a heap of arrays.                     *)
(*                                                                         *)
(* An array is [dt |-> dtype, vals |-> sequence of integers]; data and     *)
(* coefficients are small integers so that every intermediate value is an  *)
(* exact float64 (and an exact value of every dtype used): any difference  *)
(* is then a bookkeeping difference, not round-off.                        *)
(*                                                                         *)
(* Definition.  Preemphasize: y[1] = x[1], y[i] = x[i] - c x[i-1],         *)
(* computed in float64 and cast back to the input dtype.  Dither:          *)
(* y[i] = x[i] + coeff G(seed, i) for a noise stream G that does not       *)
(* depend on x.  Neither touches its input unless in_place is set, and the *)
(* values returned are the same either way.                                *)
(*                                                                         *)
(* Implementation-shaped: which array object is worked on and which is     *)
(* returned (copy when not in_place or when the dtype is not float64; the  *)
(* float64 work array is returned as is, anything else is cast to a new    *)
(* array), and the update signal[1:] -= c signal[:-1] with numpy's         *)
(* evaluate-right-hand-side-first semantics (UpdateRule = "rhs_first";     *)
(* "sequential" is the canary: a recursive filter).                        *)
(***************************************************************************)
EXTENDS Integers, Sequences, FiniteSets, TLC
CONSTANTS Dtypes, Vals, MaxLen, Coeffs, MaxOps, UpdateRule

VARIABLES heap,     \* sequence of arrays; the index is the object's identity
          ret,      \* index of the array returned by the last call (0: none yet)
          last,     \* [src, c, inPlace, old] of the last call
          nops
vars == <<heap, ret, last, nops>>

Recur(x, c) == [i \in 1..Len(x) |-> IF i = 1 THEN x[1] ELSE x[i] - c * x[i - 1]]
RECURSIVE SeqUpd(_, _, _)
SeqUpd(x, c, i) == IF i > Len(x) THEN x ELSE SeqUpd([x EXCEPT ![i] = x[i] - c * x[i - 1]], c, i + 1)
Update(x, c) == IF UpdateRule = "rhs_first" THEN Recur(x, c)
                ELSE IF Len(x) < 2 THEN x ELSE SeqUpd(x, c, 2)

\* the dither law with an explicit (but arbitrary) noise table
G(seed, i) == ((seed * 7 + i * 13) % 5) - 2
DitherDef(x, coeff, seed) == [i \in 1..Len(x) |-> x[i] + coeff * G(seed, i)]

Arrays == UNION { [1..n -> Vals] : n \in 0..MaxLen }

\* Preemphasize.apply(heap[src], in_place = inPlace)
Preemph(src, c, inPlace) ==
  /\ nops < MaxOps
  /\ LET a == heap[src]
         copies == ~inPlace \/ a.dt # "f8"          \* signal = signal.astype(float64)
         worked == [dt |-> "f8", vals |-> Update(a.vals, c)]
         h1 == IF copies THEN Append(heap, worked) ELSE [heap EXCEPT ![src] = worked]
         w == IF copies THEN Len(heap) + 1 ELSE src
     IN IF a.dt = "f8"
        THEN heap' = h1 /\ ret' = w                  \* astype(dtype, copy=False): same object
        ELSE heap' = Append(h1, [dt |-> a.dt, vals |-> worked.vals]) /\ ret' = Len(h1) + 1
  /\ last' = [src |-> src, c |-> c, inPlace |-> inPlace, old |-> heap[src]]
  /\ nops' = nops + 1

\* one array to start with (any dtype, any contents); calls then grow the heap
Init == /\ \E dt \in Dtypes, v \in Arrays : heap = << [dt |-> dt, vals |-> v] >>
        /\ ret = 0 /\ nops = 0
        /\ last = [src |-> 0, c |-> 0, inPlace |-> FALSE, old |-> [dt |-> "f8", vals |-> <<>>]]
NPreemph == \E src \in 1..Len(heap), c \in Coeffs, ip \in BOOLEAN : Preemph(src, c, ip)
Next == NPreemph
Spec == Init /\ [][Next]_vars

C18_PreemphRecurrence == ret # 0 => heap[ret].vals = Recur(last.old.vals, last.c)
C18_ResultDtypeIsInputDtype == ret # 0 => heap[ret].dt = last.old.dt
C18_InputUntouchedUnlessInPlace == (ret # 0 /\ ~last.inPlace) => heap[last.src] = last.old
\* no other array is ever touched, and arrays never disappear
C18_OnlyTheInputMayChange ==
  [][\A k \in 1..Len(heap) : (k # last'.src \/ ~last'.inPlace) => heap'[k] = heap[k]]_vars
\* consequences of the dither law (TLC evaluates them for the explicit noise table)
DitherLaws == \A x \in Arrays, y \in Arrays : \A seed \in 0..2 : Len(x) = Len(y) =>
  /\ [i \in 1..Len(x) |-> DitherDef(x, 2, seed)[i] - x[i]] = [i \in 1..Len(y) |-> DitherDef(y, 2, seed)[i] - y[i]]
  /\ DitherDef(x, 0, seed) = x
  /\ [i \in 1..Len(x) |-> DitherDef(x, 2, seed)[i] - x[i]] = [i \in 1..Len(x) |-> 2 * (DitherDef(x, 1, seed)[i] - x[i])]
ASSUME DitherLaws
===============================================================================
