---------------------------------- MODULE G711 ----------------------------------
(***************************************************************************)
(* ITU-T G.711 expansion of 8-bit mu-law and A-law codes to linear PCM, by *)
(* the bit-field formulas of the recommendation (no tables): the oracle    *)
(* for ULAW2PCM / ALAW2PCM in _sphere.py (C12, C13).  Constant evaluation. *)
(***************************************************************************)
EXTENDS Integers, Sequences, TLC, Json, IOUtils
Bit(x, k) == (x \div (2 ^ k)) % 2
Xor8(a, b) == LET S[k \in 0..8] == IF k = 0 THEN 0 ELSE S[k - 1] + (IF Bit(a, k - 1) # Bit(b, k - 1) THEN 2 ^ (k - 1) ELSE 0) IN S[8]
\* mu-law: complement, sign | 3-bit exponent | 4-bit mantissa, bias 0x84
Ulaw(code) == LET u == 255 - code
                  e == (u \div 16) % 8
                  m == u % 16
                  mag == ((m * 8 + 132) * (2 ^ e)) - 132
              IN IF u >= 128 THEN -mag ELSE mag
\* A-law: toggle even bits (0x55); sign bit set means positive
Alaw(code) == LET a == Xor8(code, 85)
                  e == (a \div 16) % 8
                  m == a % 16
                  mag == IF e = 0 THEN m * 16 + 8 ELSE (m * 16 + 264) * (2 ^ (e - 1))
              IN IF a >= 128 THEN mag ELSE -mag
UlawTable == [c \in 1..256 |-> Ulaw(c - 1)]
AlawTable == [c \in 1..256 |-> Alaw(c - 1)]
\* sanity known from the recommendation
ASSUME Ulaw(255) = 0 /\ Ulaw(0) = -32124 /\ Ulaw(128) = 32124
ASSUME Alaw(213) = 8 /\ Alaw(85) = -8 /\ Alaw(170) = 32256 /\ Alaw(42) = -32256
ASSUME \A c \in 0..127 : Ulaw(c) = -Ulaw(c + 128) /\ Alaw(c) = -Alaw(c + 128)
ASSUME IOEnv.OUT_FILE = "" \/ JsonSerialize(IOEnv.OUT_FILE, [ulaw |-> UlawTable, alaw |-> AlawTable])
===============================================================================
