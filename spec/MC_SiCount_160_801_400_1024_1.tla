---- MODULE MC_SiCount_160_801_400_1024_1 ----
EXTENDS SiCount
\* @type: () => Bool;
ConstInit == S = 160 /\ M = 801 /\ T = 400 /\ D = 1024 /\ Centered = 1 /\ MaxChunk = 100000
====
