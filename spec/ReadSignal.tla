------------------------------- MODULE ReadSignal -------------------------------
(***************************************************************************)
(* C11: the decision table of pydrobert.speech.util.read_signal - which    *)
(* reader (or which exception) a call resolves to, by the numbered rules   *)
(* of its docstring.  A file name is abstracted to what the rules look at: *)
(*   table : it starts with  ark: / scp: / ark,opts: ...                   *)
(*   ext   : the text after the last "." (the whole name if there is none) *)
(*   pipe  : it ends with "|"                                              *)
(*   dotted: there are other dots earlier in the path                      *)
(* SF is config.SOUNDFILE_SUPPORTED_FILE_TYPES in the running environment. *)
(***************************************************************************)
EXTENDS Integers, Sequences, FiniteSets, TLC, Json, IOUtils, SequencesExt
CONSTANTS SF

Exts == {"wav", "flac", "aiff", "ogg", "hdf5", "npy", "npz", "pt", "sph", "txt", "WAV", "bak", "noext", "sph|", "file", "soundfile", "kaldi", "table"}
\* dotted: the path has further dots before the extension (directory.v2/utt.01.<ext>): irrelevant to the rules
Names == [table : BOOLEAN, ext : Exts, pipe : BOOLEAN, dotted : BOOLEAN]
Forced == {"table", "wav", "hdf5", "npy", "npz", "pt", "sph", "kaldi", "file", "soundfile"}
ForceAs == {"none", "bogus", "mp3"} \cup Forced \cup SF

\* rules 1-10 of the docstring, in order
Infer(n) ==
  IF n.table THEN "table"
  ELSE IF ~n.pipe /\ n.ext \in SF THEN n.ext
  ELSE IF ~n.pipe /\ n.ext = "wav" THEN "wav"
  ELSE IF ~n.pipe /\ n.ext = "hdf5" THEN "hdf5"
  ELSE IF ~n.pipe /\ n.ext = "npy" THEN "npy"
  ELSE IF ~n.pipe /\ n.ext = "npz" THEN "npz"
  ELSE IF ~n.pipe /\ n.ext = "pt" THEN "pt"
  ELSE IF ~n.pipe /\ n.ext = "sph" THEN "sph"
  ELSE IF n.pipe THEN "kaldi"
  ELSE "IOError"

\* which reader handles an (explicit or inferred) type; "wav" is tested before the soundfile types
Reader(f) == IF f = "wav" THEN "wav"
             ELSE IF f \in Forced \ {"soundfile"} THEN f
             ELSE IF f = "soundfile" \/ f \in SF THEN "soundfile"
             ELSE "ValueError"

\* src: "path" | "stream"
Outcome(src, n, f) ==
  IF src = "stream"
  THEN IF f = "none" THEN "ValueError"
       ELSE IF f \in {"kaldi", "table"} THEN "ValueError"
       ELSE Reader(f)
  ELSE IF f = "none" THEN (IF Infer(n) = "IOError" THEN "IOError" ELSE Reader(Infer(n)))
       ELSE Reader(f)

Rows == {[src |-> s, name |-> n, force_as |-> f, outcome |-> Outcome(s, n, f)] :
         s \in {"path", "stream"}, n \in {m \in Names : ~(m.pipe /\ m.ext # "sph|") /\ (m.ext = "sph|" => m.pipe)}, f \in ForceAs}

Outcomes == Forced \cup {"IOError", "ValueError"}
C11_Total == \A r \in Rows : r.outcome \in Outcomes
C11_StreamNeedsForceAs == \A r \in Rows : (r.src = "stream" /\ r.force_as = "none") => r.outcome = "ValueError"
C11_UnknownForceAsIsValueError == \A r \in Rows : r.force_as \in {"bogus", "mp3"} => r.outcome = "ValueError"
C11_UnknownSuffixIsIOError ==
  \A r \in Rows : (r.src = "path" /\ r.force_as = "none" /\ ~r.name.table /\ ~r.name.pipe
                   /\ r.name.ext \in {"txt", "WAV", "bak", "noext", "file", "soundfile", "kaldi", "table"}) => r.outcome = "IOError"
C11_ForceAsWins == \A r \in Rows : (r.src = "path" /\ r.force_as \in Forced) => r.outcome = Reader(r.force_as)
C11_KaldiNeedsString == \A r \in Rows : (r.src = "stream" /\ r.force_as \in {"kaldi", "table"}) => r.outcome = "ValueError"
ASSUME C11_Total
ASSUME C11_StreamNeedsForceAs
ASSUME C11_UnknownForceAsIsValueError
ASSUME C11_UnknownSuffixIsIOError
ASSUME C11_ForceAsWins
ASSUME C11_KaldiNeedsString
ASSUME IOEnv.OUT_FILE = "" \/ JsonSerialize(IOEnv.OUT_FILE, SetToSeq(Rows))
ASSUME PrintT(<<"ROWS", Cardinality(Rows)>>)
===============================================================================
