---- MODULE MC_StftCount_400_160_2 ----
EXTENDS StftCount
\* @type: () => Bool;
ConstInit == L = 400 /\ S = 160 /\ Style = 2 /\ MaxChunk = 100000
====
