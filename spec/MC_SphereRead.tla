------------------------------ MODULE MC_SphereRead ------------------------------
EXTENDS SphereRead
\* (16384: one frame fills a read exactly; 16386, 16401: one frame is LARGER than the 16 KiB read size)
FsAll == {1, 2, 3, 4, 5, 6, 8, 10, 12, 16384, 16386, 16401}
FsTiny == {2, 6}
===============================================================================
