------------------------------- MODULE TraceAlias -------------------------------
(***************************************************************************)
(* Trace validation for C08: each trace is a class table created on the    *)
(* real AliasedFactory (in registration order) plus the observed result of *)
(* from_alias for every (root, alias) query: the index of the class of the *)
(* returned instance, 0 for ValueError, -1 for any other exception.        *)
(* Every query must agree with the definition (DefResult); a disagreement  *)
(* that is exactly the known cross-branch finding is reported with its own *)
(* clause name; the walk function (ImplResult) is compared as well.        *)
(***************************************************************************)
EXTENDS Alias, Json, IOUtils
Traces == ndJsonDeserialize(IOEnv.TRACE_FILE)
VARIABLES tid, l, nfail
tvars == <<vars, tid, l, nfail>>
\* JSON gives own aliases as a sequence of strings, or the string "__inherit__"
ToSet(s) == {s[i] : i \in 1..Len(s)}
Table(t) == [k \in 1..Len(t.classes) |->
               [parent |-> t.classes[k].parent,
                own |-> IF t.classes[k].inherit THEN Inherit ELSE ToSet(t.classes[k].own)]]
Q == Traces[tid].queries[l]
Cs == Table(Traces[tid])
Why ==
  LET def == DefResult(Cs, Q.root, Q.alias)
      m == MatchingIn(Cs, Q.root, Q.alias)
  IN IF Q.result = def THEN ""
     ELSE IF Q.result = -1 THEN "C08_UnexpectedException"
     ELSE IF def = 0 THEN "C08_UnknownAliasIsValueError"
     ELSE IF Q.result = 0 THEN "C08_KnownAliasRaisedValueError"
     ELSE IF Q.result \notin m THEN "C08_ResolvesToMatchingDescendant"
     ELSE IF \E k \in m : k > Q.result /\ CrossBranch(Cs, Q.result, k) /\ Q.result = ImplResult(Cs, Q.root, Q.alias)
          THEN "C08_LastRegisteredWins/known_cross_branch"
          ELSE "C08_LastRegisteredWins"
TStep == /\ tid <= Len(Traces) /\ l <= Len(Traces[tid].queries)
        /\ Why = ""
        /\ l' = l + 1 /\ UNCHANGED <<tid, nfail, vars>>
\* a failed query is reported and skipped, so that the rest of the trace is still checked
Skip == /\ tid <= Len(Traces) /\ l <= Len(Traces[tid].queries)
        /\ Why # ""
        /\ PrintT(<<"REJECTED", Traces[tid].tid, l, Why>>)
        /\ l' = l + 1 /\ nfail' = nfail + 1 /\ UNCHANGED <<tid, vars>>
TAdvance == /\ tid <= Len(Traces) /\ l > Len(Traces[tid].queries)
           /\ tid' = tid + 1 /\ l' = 1 /\ UNCHANGED <<nfail, vars>>
           /\ IF tid = Len(Traces) THEN PrintT(<<"DONE", Len(Traces), nfail>>) ELSE TRUE
TInit == tid = 1 /\ l = 1 /\ nfail = 0 /\ Init
TNext == TStep \/ Skip \/ TAdvance
TSpec == TInit /\ [][TNext]_tvars
===============================================================================
