---- MODULE MC_SiCount_80_321_0_512_0 ----
EXTENDS SiCount
\* @type: () => Bool;
ConstInit == S = 80 /\ M = 321 /\ T = 0 /\ D = 512 /\ Centered = 0 /\ MaxChunk = 100000
====
