---- MODULE MC_StftCount_400_160_1 ----
EXTENDS StftCount
\* @type: () => Bool;
ConstInit == L = 400 /\ S = 160 /\ Style = 1 /\ MaxChunk = 100000
====
