CONSTANTS
  MaxD = 40
