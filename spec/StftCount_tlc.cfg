CONSTANTS
  L = 5
  S = 2
  Style = 2
  MaxChunk = 12
SPECIFICATION Spec
CONSTRAINT Bounded
INVARIANT IndInv
INVARIANT C01_CountEqualsFull
CHECK_DEADLOCK FALSE
