CONSTANTS
  Dtypes <- DtAll
  Vals <- ValsQ
  MaxLen = 3
  Coeffs <- CoeffsQ
  MaxOps = 3
  UpdateRule = "rhs_first"
SPECIFICATION Spec
INVARIANT C18_PreemphRecurrence
INVARIANT C18_ResultDtypeIsInputDtype
INVARIANT C18_InputUntouchedUnlessInPlace
PROPERTY C18_OnlyTheInputMayChange
CHECK_DEADLOCK FALSE
