--------------------------------- MODULE Alias ---------------------------------
(***************************************************************************)
(* C08.  The alias registry of pydrobert.speech.alias.AliasedFactory.      *)
(*                                                                         *)
(* classes is the sequence of registered classes in registration order;    *)
(* classes[k] = [parent |-> index of the base class (0 for the family      *)
(* root's own base), own |-> its `aliases` attribute, or Inherit when the  *)
(* class does not define one (Python attribute lookup then finds the       *)
(* nearest ancestor's)].                                                   *)
(*                                                                         *)
(* Definition: from_alias(root, a) is the LAST REGISTERED class among root *)
(* and its descendants whose aliases contain a; ValueError if none.        *)
(*                                                                         *)
(* Implementation-shaped: the stack walk of alias.py (one action per pop). *)
(* The walk visits children last-registered-first and a class after its    *)
(* descendants, which is "last registered" only among classes that are     *)
(* comparable (ancestor/descendant) or whose branches at their lowest      *)
(* common ancestor are ordered like the classes themselves.  The remaining *)
(* case is the known finding `alias-cross-branch` (KnownCrossBranch).      *)
(***************************************************************************)
EXTENDS Integers, Sequences, FiniteSets, TLC
CONSTANTS MaxClasses, Aliases, WalkOrder   \* WalkOrder: "post" (the code) | "pre" (canary)
Inherit == {"__inherit__"}
VARIABLES classes, phase, root, query, stack, pushed, result
vars == <<classes, phase, root, query, stack, pushed, result>>
OwnChoices == (SUBSET Aliases) \cup {Inherit}

(* ------------- pure operators over a class table cs ---------------------- *)
RECURSIVE AliasesOfIn(_, _)
AliasesOfIn(cs, k) == IF cs[k].own = Inherit
                      THEN IF cs[k].parent = 0 THEN {} ELSE AliasesOfIn(cs, cs[k].parent)
                      ELSE cs[k].own
ChildSet(cs, k) == {c \in 1..Len(cs) : cs[c].parent = k}
\* children in registration order (== __subclasses__())
ChildrenIn(cs, k) == [ j \in 1..Cardinality(ChildSet(cs, k)) |->
                        CHOOSE c \in ChildSet(cs, k) : Cardinality({d \in ChildSet(cs, k) : d < c}) = j - 1 ]
RECURSIVE IsDescIn(_, _, _)
IsDescIn(cs, k, r) == k = r \/ (cs[k].parent # 0 /\ IsDescIn(cs, cs[k].parent, r))
MatchingIn(cs, r, a) == {k \in 1..Len(cs) : IsDescIn(cs, k, r) /\ a \in AliasesOfIn(cs, k)}
SetMax(s) == CHOOSE x \in s : \A y \in s : y <= x
\* the definition: 0 stands for ValueError
DefResult(cs, r, a) == IF MatchingIn(cs, r, a) = {} THEN 0 ELSE SetMax(MatchingIn(cs, r, a))
\* the child of `anc` on the path down to k (k a proper descendant of anc)
RECURSIVE BranchIn(_, _, _)
BranchIn(cs, k, anc) == IF cs[k].parent = anc THEN k ELSE BranchIn(cs, cs[k].parent, anc)
Ancestors(cs, k) == {r \in 1..Len(cs) : IsDescIn(cs, k, r)}
Lca(cs, k1, k2) == SetMax(Ancestors(cs, k1) \cap Ancestors(cs, k2))
\* w is returned although the later-registered k also matches: w's branch at their lowest common
\* ancestor was registered after k's branch
CrossBranch(cs, w, k) == LET a == Lca(cs, w, k) IN
                         a # w /\ a # k /\ BranchIn(cs, w, a) > BranchIn(cs, k, a)
\* the walk of alias.py as a function (post-order, children last-registered-first)
RECURSIVE WalkIn(_, _, _, _)
WalkIn(cs, st, pu, a) ==
  IF st = <<>> THEN 0 ELSE
  LET top == st[Len(st)]
      rest == SubSeq(st, 1, Len(st) - 1)
  IN IF top \notin pu
     THEN WalkIn(cs, rest \o <<top>> \o ChildrenIn(cs, top), pu \cup {top}, a)
     ELSE IF a \in AliasesOfIn(cs, top) THEN top ELSE WalkIn(cs, rest, pu, a)
ImplResult(cs, r, a) == WalkIn(cs, <<r>>, {}, a)

(* ------------- the state machine ------------------------------------------ *)
AliasesOf(k) == AliasesOfIn(classes, k)
Children(k) == ChildrenIn(classes, k)
Init == /\ classes = << [parent |-> 0, own |-> {}] >> /\ phase = "register" /\ root = 0 /\ query = "none"
        /\ stack = <<>> /\ pushed = {} /\ result = 0
Register == /\ phase = "register" /\ Len(classes) < MaxClasses
            /\ \E p \in 1..Len(classes), o \in OwnChoices : classes' = Append(classes, [parent |-> p, own |-> o])
            /\ UNCHANGED <<phase, root, query, stack, pushed, result>>
BeginResolve == /\ phase = "register"
                /\ \E r \in 1..Len(classes), a \in Aliases :
                     /\ root' = r /\ query' = a /\ stack' = <<r>> /\ pushed' = {} /\ phase' = "resolve" /\ result' = 0
                /\ UNCHANGED classes
Step == /\ phase = "resolve" /\ stack # <<>>
        /\ LET top == stack[Len(stack)]
               rest == SubSeq(stack, 1, Len(stack) - 1) IN
           IF WalkOrder = "post"
           THEN IF top \notin pushed
                THEN /\ stack' = rest \o <<top>> \o Children(top) /\ pushed' = pushed \cup {top}
                     /\ UNCHANGED <<phase, result>>
                ELSE IF query \in AliasesOf(top)
                     THEN /\ result' = top /\ phase' = "found" /\ stack' = rest /\ UNCHANGED pushed
                     ELSE /\ stack' = rest /\ UNCHANGED <<phase, result, pushed>>
           ELSE \* canary: test a class before its subclasses
                IF query \in AliasesOf(top)
                THEN /\ result' = top /\ phase' = "found" /\ stack' = rest /\ UNCHANGED pushed
                ELSE /\ stack' = rest \o Children(top) /\ UNCHANGED <<phase, result, pushed>>
        /\ UNCHANGED <<classes, root, query>>
NotFound == /\ phase = "resolve" /\ stack = <<>> /\ phase' = "valueerror"
            /\ UNCHANGED <<classes, root, query, stack, pushed, result>>
Next == Register \/ BeginResolve \/ Step \/ NotFound
Spec == Init /\ [][Next]_vars /\ WF_vars(Step \/ NotFound)

Matching == MatchingIn(classes, root, query)
C08_ResolvesToMatchingDescendant == phase = "found" => result \in Matching
C08_UnknownAliasIsValueError == phase = "valueerror" => Matching = {}
C08_FoundIfExists == phase \in {"found", "valueerror"} => (phase = "found" <=> Matching # {})
\* the property as stated
C08_LastRegisteredWins == phase = "found" => result = SetMax(Matching)
\* the property up to the known finding
KnownCrossBranch == \E k \in Matching : k > result /\ CrossBranch(classes, result, k)
C08_LastRegisteredWinsOrKnown == phase = "found" => (result = SetMax(Matching) \/ KnownCrossBranch)
\* the walk, as a function, agrees with the stepwise machine
WalkFunctionAgrees == phase = "found" => result = ImplResult(classes, root, query)
ResolveTerminates == [](phase = "resolve" => <>(phase \in {"found", "valueerror"}))
===============================================================================
