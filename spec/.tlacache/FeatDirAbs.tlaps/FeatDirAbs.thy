(* automatically generated -- do not edit manually *)
theory FeatDirAbs imports Constant Zenon begin
ML_command \<open> writeln ("*** TLAPS PARSED\n"); \<close>
consts
  "isReal" :: c
  "isa_slas_a" :: "[c,c] => c"
  "isa_bksl_diva" :: "[c,c] => c"
  "isa_perc_a" :: "[c,c] => c"
  "isa_peri_peri_a" :: "[c,c] => c"
  "isInfinity" :: c
  "isa_lbrk_rbrk_a" :: "[c] => c"
  "isa_less_more_a" :: "[c] => c"

end
