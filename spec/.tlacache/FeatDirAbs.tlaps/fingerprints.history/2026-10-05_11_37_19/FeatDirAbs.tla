------------------------------- MODULE FeatDirAbs -------------------------------
(***************************************************************************)
(* C10, for ANY number of utterances and ANY number of kills / interrupts  *)
(* and restarts: a set-level abstraction of FeatDir.tla (the code's rules: *)
(* seed offset = position in the map file, manifest flushed per line, so   *)
(* the user-space buffer is always empty and is left out), with a machine- *)
(* checked proof (TLAPS) that                                              *)
(*   - the manifest only ever lists utterances whose file is complete and  *)
(*     is the file an uninterrupted run writes (ManifestOnlyGood),         *)
(*   - when a run finishes, every file is the uninterrupted run's          *)
(*     (ResumeEqualsUninterrupted),                                        *)
(*   - a listed utterance is never computed again (NoRecompute).           *)
(* TLC checks that FeatDir.tla refines this module for small N             *)
(* (FeatDir_refines.cfg), which ties the proof to the sequence-level model *)
(* that the recorded executions of the real tool are validated against.    *)
(*                                                                         *)
(* disk: utterances listed in the manifest file; files[u]: -2 absent, -1   *)
(* partial, s >= 0 complete and computed with seed offset s; rest: what    *)
(* this run still has to do; cur: the utterance being saved.               *)
(***************************************************************************)
EXTENDS Integers, TLAPS
CONSTANT N
ASSUME NPos == N \in Nat
Utts == 1..N
VARIABLES disk, files, pc, rest, cur, startM
vars == <<disk, files, pc, rest, cur, startM>>
Running == {"loop", "saving", "writing", "saved"}

Init == /\ disk = {} /\ files = [u \in Utts |-> (-2)] /\ pc = "idle"
        /\ rest = {} /\ cur = 0 /\ startM = {}
\* (cur only means something while an utterance is being saved; elsewhere it is left unconstrained, so that the
\* sequence-level model, whose "current" is todo[i], refines this one)
Start == /\ pc = "idle" /\ rest' = Utts \ disk /\ startM' = disk /\ pc' = "loop"
         /\ UNCHANGED <<disk, files>>
\* the loader yields utterances in map order: the least one not yet done
SaveBegin == /\ pc = "loop" /\ rest # {}
             /\ \E u \in rest : (\A v \in rest : u <= v) /\ cur' = u
             /\ pc' = "saving" /\ UNCHANGED <<disk, files, rest, startM>>
SaveWrite == /\ pc = "saving" /\ files' = [files EXCEPT ![cur] = (-1)] /\ pc' = "writing"
             /\ UNCHANGED <<disk, rest, cur, startM>>
SaveEnd == /\ pc = "writing" /\ files' = [files EXCEPT ![cur] = cur - 1] /\ pc' = "saved"
           /\ UNCHANGED <<disk, rest, cur, startM>>
ManifestPrint == /\ pc = "saved" /\ disk' = disk \cup {cur} /\ rest' = rest \ {cur} /\ pc' = "loop"
                 /\ UNCHANGED <<files, startM>>
Finish == /\ pc = "loop" /\ rest = {} /\ pc' = "done" /\ UNCHANGED <<disk, files, rest, startM>>
\* SIGKILL or KeyboardInterrupt anywhere in the loop (the manifest is flushed per line: nothing is lost or gained)
Crash == /\ pc \in Running /\ pc' = "crashed" /\ UNCHANGED <<disk, files, rest, startM>>
Restart == /\ pc = "crashed" /\ pc' = "idle" /\ UNCHANGED <<disk, files, rest, startM>>
Next == Start \/ SaveBegin \/ SaveWrite \/ SaveEnd \/ ManifestPrint \/ Finish \/ Crash \/ Restart
Spec == Init /\ [][Next]_vars

Good(u) == files[u] = u - 1
ManifestOnlyGood == \A u \in disk : Good(u)
ResumeEqualsUninterrupted == pc = "done" => \A u \in Utts : Good(u)
NoRecompute == [][pc' = "saving" /\ pc = "loop" => cur' \notin startM]_vars

TypeOK == /\ disk \subseteq Utts /\ files \in [Utts -> Int] /\ rest \subseteq Utts /\ startM \subseteq Utts
          /\ pc \in Running \cup {"idle", "crashed", "done"}
Inv == /\ TypeOK
       /\ ManifestOnlyGood
       /\ pc \in Running \cup {"done"} => (rest \cap disk = {} /\ rest \cup disk = Utts /\ startM \subseteq disk)
       /\ pc \in {"saving", "writing", "saved"} => cur \in rest
       /\ pc = "saved" => Good(cur)
       /\ pc = "done" => rest = {}

LEMMA InitInv == Init => Inv
  BY NPos DEF Init, Inv, TypeOK, ManifestOnlyGood, Good, Running, Utts

LEMMA NextInv == Inv /\ [Next]_vars => Inv'
<1> SUFFICES ASSUME Inv, [Next]_vars PROVE Inv'
  OBVIOUS
<1> USE NPos DEF Inv, TypeOK, ManifestOnlyGood, Good, Running, Utts
<1>1. CASE Start
  BY <1>1 DEF Start
<1>2. CASE SaveBegin
  BY <1>2 DEF SaveBegin
<1>3. CASE SaveWrite
  <2>1. cur \in rest /\ cur \notin disk /\ cur \in Utts
    BY <1>3 DEF SaveWrite
  <2>2. \A u \in disk : files'[u] = files[u]
    BY <1>3, <2>1 DEF SaveWrite
  <2> QED BY <1>3, <2>1, <2>2 DEF SaveWrite
<1>4. CASE SaveEnd
  <2>1. cur \in rest /\ cur \notin disk /\ cur \in Utts
    BY <1>4 DEF SaveEnd
  <2>2. \A u \in disk : files'[u] = files[u]
    BY <1>4, <2>1 DEF SaveEnd
  <2>3. files'[cur] = cur - 1
    BY <1>4, <2>1 DEF SaveEnd
  <2> QED BY <1>4, <2>1, <2>2, <2>3 DEF SaveEnd
<1>5. CASE ManifestPrint
  BY <1>5 DEF ManifestPrint
<1>6. CASE Finish
  BY <1>6 DEF Finish
<1>7. CASE Crash
  BY <1>7 DEF Crash
<1>8. CASE Restart
  BY <1>8 DEF Restart
<1>9. CASE UNCHANGED vars
  BY <1>9 DEF vars
<1> QED BY <1>1, <1>2, <1>3, <1>4, <1>5, <1>6, <1>7, <1>8, <1>9 DEF Next

THEOREM Safety == Spec => [](ManifestOnlyGood /\ ResumeEqualsUninterrupted)
<1>1. Inv => ManifestOnlyGood /\ ResumeEqualsUninterrupted
  BY DEF Inv, ResumeEqualsUninterrupted, ManifestOnlyGood, Good, TypeOK
<1>2. Spec => []Inv
  BY InitInv, NextInv, PTL DEF Spec
<1> QED BY <1>1, <1>2, PTL

\* a run only saves what the manifest did not list when the run started
LEMMA NoRecomputeStep == Inv /\ [Next]_vars => (pc' = "saving" /\ pc = "loop" => cur' \notin startM)
  BY NPos DEF Inv, TypeOK, Next, vars, Start, SaveBegin, SaveWrite, SaveEnd, ManifestPrint, Finish, Crash, Restart, Running, Utts
THEOREM Spec => NoRecompute
<1>1. Spec => []Inv
  BY InitInv, NextInv, PTL DEF Spec
<1> QED BY <1>1, NoRecomputeStep, PTL DEF Spec, NoRecompute
\* what is listed stays listed (the manifest is only ever appended to), and the file of a listed utterance is never touched again
ManifestOnlyGrows == [][disk \subseteq disk']_vars
ListedFileStays == [][\A u \in disk : files'[u] = files[u]]_vars
LEMMA GrowStep == Inv /\ [Next]_vars => (disk \subseteq disk') /\ (\A u \in disk : files'[u] = files[u])
  BY NPos DEF Inv, TypeOK, Next, vars, Start, SaveBegin, SaveWrite, SaveEnd, ManifestPrint, Finish, Crash, Restart, Running, Utts
THEOREM Spec => ManifestOnlyGrows /\ ListedFileStays
<1>1. Spec => []Inv
  BY InitInv, NextInv, PTL DEF Spec
<1> QED BY <1>1, GrowStep, PTL DEF Spec, ManifestOnlyGrows, ListedFileStays
===============================================================================
