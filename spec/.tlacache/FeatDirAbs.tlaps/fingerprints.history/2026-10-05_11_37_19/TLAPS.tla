------------------------------- MODULE TLAPS --------------------------------

(* Backend pragmas. *)


(***************************************************************************)
(* Each of these pragmas can be cited with a BY or a USE.  The pragma that *)
(* is added to the context of an obligation most recently is the one whose *)
(* effects are triggered.                                                  *)
(***************************************************************************)

(***************************************************************************)
(* The following pragmas should be used only as a last resource.  They are *)
(* dependent upon the particular backend provers, and are unlikely to have *)
(* any effect if the set of backend provers changes.  Moreover, they are   *)
(* meaningless to a reader of the proof.                                   *)
(***************************************************************************)


(**************************************************************************)
(* Backend pragma: use the SMT solver for arithmetic.                     *)
(*                                                                        *)
(* This method exists under this name for historical reasons.             *)
(**************************************************************************)

SimpleArithmetic == TRUE (*{ by (prover:"smt3") }*)


(**************************************************************************)
(* Backend pragma: SMT solver                                             *)
(*                                                                        *)
(* This method translates the proof obligation to SMTLIB2. The supported  *)
(* fragment includes first-order logic, set theory, functions and         *)
(* records.                                                               *)
(* SMT calls the smt-solver with the default timeout of 5 seconds         *)
(* while SMTT(n) calls the smt-solver with a timeout of n seconds.        *)
(*                                                                        *)
(* SMTT also accepts a string argument of the form "rN" to bound the      *)
(* underlying Z3 solver by a deterministic `rlimit` budget instead of a    *)
(* wall-clock timeout, e.g. SMTT("r5"). N is a multiple of a fixed base    *)
(* resource count, so a small readable budget like "r5" is meaningful.     *)
(* Unlike a wall-clock timeout, an `rlimit` budget does not depend on CPU  *)
(* speed or load, so the proof's pass/fail outcome reproduces on any       *)
(* machine and every rerun (for a fixed Z3 build); how long it takes to    *)
(* consume the budget still varies by machine. This is Z3-specific.        *)
(**************************************************************************)

SMT == TRUE (*{ by (prover:"smt3") }*)
SMTT(X) == TRUE (*{ by (prover:"smt3"; timeout:@) }*)


(**************************************************************************)
(* Backend pragma: CVC4 SMT solver                                        *)
(*                                                                        *)
(* These methods translate the proof obligation to SMTLIB2 and call CVC4. *)
(**************************************************************************)

(* The CVC3* methods are here for backward compatibility. They call CVC4. *)
CVC3 == TRUE (*{ by (prover: "cvc33") }*)
CVC3T(X) == TRUE (*{ by (prover:"cvc33"; timeout:@) }*)

CVC4 == TRUE (*{ by (prover: "cvc33") }*)
CVC4T(X) == TRUE (*{ by (prover:"cvc33"; timeout:@) }*)


(**************************************************************************)
(* Backend pragma: Yices SMT solver                                       *)
(*                                                                        *)
(* This method translates the proof obligation to Yices native language.  *)
(**************************************************************************)

Yices == TRUE (*{ by (prover: "yices3") }*)
YicesT(X) == TRUE (*{ by (prover:"yices3"; timeout:@) }*)

(**************************************************************************)
(* Backend pragma: veriT SMT solver                                       *)
(*                                                                        *)
(* This method translates the proof obligation to SMTLIB2 and calls veriT.*)
(**************************************************************************)

veriT == TRUE (*{ by (prover: "verit") }*)
veriTT(X) == TRUE (*{ by (prover:"verit"; timeout:@) }*)

(**************************************************************************)
(* Backend pragma: Zipperposition solver                                  *)
(*                                                                        *)
(* This method translates the proof obligation to TPTP and                *)
(* calls Zipperposition.                                                  *)
(**************************************************************************)

Zipper == TRUE (*{ by (prover: "zipper") }*)
ZipperT(X) == TRUE (*{ by (prover:"zipper"; timeout:@) }*)

(**************************************************************************)
(* Backend pragma: Z3 SMT solver                                          *)
(*                                                                        *)
(* This method translates the proof obligation to SMTLIB2 and calls Z3.   *)
(* Z3 is used by default but you can also explicitly call it.             *)
(* Z3T(n) bounds Z3 by a wall-clock timeout of n seconds, while Z3T("rN")  *)
(* bounds it by a deterministic `rlimit` budget of N base units, which      *)
(* reproduces the same outcome on any machine (see SMTT).                   *)
(**************************************************************************)

Z3 == TRUE (*{ by (prover: "z33") }*)
Z3T(X) == TRUE (*{ by (prover:"z33"; timeout:@) }*)

(**************************************************************************)
(* Backend pragma: SPASS superposition prover                             *)
(*                                                                        *)
(* This method translates the proof obligation to the DFG format language *)
(* supported by the ATP SPASS. The translation is based on the SMT one.   *)
(**************************************************************************)

Spass == TRUE (*{ by (prover: "spass") }*)
SpassT(X) == TRUE (*{ by (prover:"spass"; timeout:@) }*)

(**************************************************************************)
(* Backend pragma: The PTL propositional linear time temporal logic       *)
(* prover.  It currently is the LS4 backend.                              *)
(*                                                                        *)
(* This method translates the negetation of the proof obligation to       *)
(* Seperated Normal Form (TRP++ format) and checks for unsatisfiability   *)
(**************************************************************************)

LS4 == TRUE (*{ by (prover: "ls4") }*)
LS4T(X) == TRUE (*{ by (prover: "ls4"; timeout:@) }*)
PTL == TRUE (*{ by (prover: "ls4") }*)

(**************************************************************************)
(* Backend pragma: Zenon with different timeouts (default is 10 seconds)  *)
(*                                                                        *)
(**************************************************************************)

Zenon == TRUE (*{ by (prover:"zenon") }*)
ZenonT(X) == TRUE (*{ by (prover:"zenon"; timeout:@) }*)

(********************************************************************)
(* Backend pragma: Isabelle with different timeouts and tactics     *)
(*  (default is 30 seconds/auto)                                    *)
(********************************************************************)

Isa == TRUE (*{ by (prover:"isabelle") }*)
IsaT(X) ==  TRUE (*{ by (prover:"isabelle"; timeout:@) }*)
IsaM(X) ==  TRUE (*{ by (prover:"isabelle"; tactic:@) }*)
IsaMT(X,Y) ==  TRUE (*{ by (prover:"isabelle"; tactic:@; timeout:@) }*)

(***************************************************************************)
(* The following theorem expresses the (useful implication of the) law of  *)
(* set extensionality, which can be written as                             *)
(*                                                                         *)
(*    THEOREM  \A S, T : (S = T) <=> (\A x : (x \in S) <=> (x \in T))      *)
(*                                                                         *)
(* Theorem SetExtensionality is sometimes required by the SMT backend for  *)
(* reasoning about sets. It is usually counterproductive to include        *)
(* theorem SetExtensionality in a BY clause for the Zenon or Isabelle      *)
(* backends. Instead, use the pragma IsaWithSetExtensionality to instruct  *)
(* the Isabelle backend to use the rule of set extensionality.             *)
(***************************************************************************)
IsaWithSetExtensionality == TRUE
           (*{ by (prover:"isabelle"; tactic:"(auto intro: setEqualI)")}*)

THEOREM SetExtensionality == \A S,T : (\A x : x \in S <=> x \in T) => S = T
OBVIOUS

(***************************************************************************)
(* The following theorem is needed to deduce NotInSetS \notin SetS from    *)
(* the definition                                                          *)
(*                                                                         *)
(*   NotInSetS == CHOOSE v : v \notin SetS                                 *)
(***************************************************************************)
THEOREM NoSetContainsEverything == \A S : \E x : x \notin S
OBVIOUS (*{by (isabelle "(auto intro: inIrrefl)")}*)
-----------------------------------------------------------------------------



(********************************************************************)
(********************************************************************)
(********************************************************************)


(********************************************************************)
(* Old versions of Zenon and Isabelle pragmas below                 *)
(* (kept for compatibility)                                         *)
(********************************************************************)


(**************************************************************************)
(* Backend pragma: Zenon with different timeouts (default is 10 seconds)  *)
(*                                                                        *)
(**************************************************************************)

SlowZenon == TRUE (*{ by (prover:"zenon"; timeout:20) }*)
SlowerZenon == TRUE (*{ by (prover:"zenon"; timeout:40) }*)
VerySlowZenon == TRUE (*{ by (prover:"zenon"; timeout:80) }*)
SlowestZenon == TRUE (*{ by (prover:"zenon"; timeout:160) }*)



(********************************************************************)
(* Backend pragma: Isabelle's automatic search ("auto")             *)
(*                                                                  *)
(* This pragma bypasses Zenon. It is useful in situations involving *)
(* essentially simplification and equational reasoning.             *)
(* Default imeout for all isabelle tactics is 30 seconds.           *)
(********************************************************************)
Auto == TRUE (*{ by (prover:"isabelle"; tactic:"auto") }*)
SlowAuto == TRUE (*{ by (prover:"isabelle"; tactic:"auto"; timeout:120) }*)
SlowerAuto == TRUE (*{ by (prover:"isabelle"; tactic:"auto"; timeout:480) }*)
SlowestAuto == TRUE (*{ by (prover:"isabelle"; tactic:"auto"; timeout:960) }*)

(********************************************************************)
(* Backend pragma: Isabelle's "force" tactic                        *)
(*                                                                  *)
(* This pragma bypasses Zenon. It is useful in situations involving *)
(* quantifier reasoning.                                            *)
(********************************************************************)
Force == TRUE (*{ by (prover:"isabelle"; tactic:"force") }*)
SlowForce == TRUE (*{ by (prover:"isabelle"; tactic:"force"; timeout:120) }*)
SlowerForce == TRUE (*{ by (prover:"isabelle"; tactic:"force"; timeout:480) }*)
SlowestForce == TRUE (*{ by (prover:"isabelle"; tactic:"force"; timeout:960) }*)

(***********************************************************************)
(* Backend pragma: Isabelle's "simplification" tactics                 *)
(*                                                                     *)
(* These tactics simplify the goal before running one of the automated *)
(* tactics. They are often necessary for obligations involving record  *)
(* or tuple projections. Use the SimplfyAndSolve tactic unless you're  *)
(* sure you can get away with just Simplification                      *)
(***********************************************************************)
SimplifyAndSolve        == TRUE
    (*{ by (prover:"isabelle"; tactic:"clarsimp auto?") }*)
SlowSimplifyAndSolve    == TRUE
    (*{ by (prover:"isabelle"; tactic:"clarsimp auto?"; timeout:120) }*)
SlowerSimplifyAndSolve  == TRUE
    (*{ by (prover:"isabelle"; tactic:"clarsimp auto?"; timeout:480) }*)
SlowestSimplifyAndSolve == TRUE
    (*{ by (prover:"isabelle"; tactic:"clarsimp auto?"; timeout:960) }*)

Simplification == TRUE (*{ by (prover:"isabelle"; tactic:"clarsimp") }*)
SlowSimplification == TRUE
    (*{ by (prover:"isabelle"; tactic:"clarsimp"; timeout:120) }*)
SlowerSimplification  == TRUE
    (*{ by (prover:"isabelle"; tactic:"clarsimp"; timeout:480) }*)
SlowestSimplification == TRUE
    (*{ by (prover:"isabelle"; tactic:"clarsimp"; timeout:960) }*)

(**************************************************************************)
(* Backend pragma: Isabelle's tableau prover ("blast")                    *)
(*                                                                        *)
(* This pragma bypasses Zenon and uses Isabelle's built-in theorem        *)
(* prover, Blast. It is almost never better than Zenon by itself, but     *)
(* becomes very useful in combination with the Auto pragma above. The     *)
(* AutoBlast pragma first attempts Auto and then uses Blast to prove what *)
(* Auto could not prove. (There is currently no way to use Zenon on the   *)
(* results left over from Auto.)                                          *)
(**************************************************************************)
Blast == TRUE (*{ by (prover:"isabelle"; tactic:"blast") }*)
SlowBlast == TRUE (*{ by (prover:"isabelle"; tactic:"blast"; timeout:120) }*)
SlowerBlast == TRUE (*{ by (prover:"isabelle"; tactic:"blast"; timeout:480) }*)
SlowestBlast == TRUE (*{ by (prover:"isabelle"; tactic:"blast"; timeout:960) }*)

AutoBlast == TRUE (*{ by (prover:"isabelle"; tactic:"auto, blast") }*)


(**************************************************************************)
(* Backend pragmas: multi-back-ends                                       *)
(*                                                                        *)
(* These pragmas just run a bunch of back-ends one after the other in the *)
(* hope that one will succeed. This saves time and effort for the user at *)
(* the expense of computation time.                                       *)
(**************************************************************************)

(* CVC3 goes first because it's bundled with TLAPS, then the other SMT
   solvers are unlikely to succeed if CVC3 fails, so we run zenon and
   Isabelle before them. *)
AllProvers == TRUE (*{
    by (prover:"cvc33")
    by (prover:"zenon")
    by (prover:"isabelle"; tactic:"auto")
    by (prover:"spass")
    by (prover:"smt3")
    by (prover:"yices3")
    by (prover:"verit")
    by (prover:"z33")
    by (prover:"isabelle"; tactic:"force")
    by (prover:"isabelle"; tactic:"(auto intro: setEqualI)")
    by (prover:"isabelle"; tactic:"clarsimp auto?")
    by (prover:"isabelle"; tactic:"clarsimp")
    by (prover:"isabelle"; tactic:"auto, blast")
  }*)
AllProversT(X) == TRUE (*{
    by (prover:"cvc33"; timeout:@)
    by (prover:"zenon"; timeout:@)
    by (prover:"isabelle"; tactic:"auto"; timeout:@)
    by (prover:"spass"; timeout:@)
    by (prover:"smt3"; timeout:@)
    by (prover:"yices3"; timeout:@)
    by (prover:"verit"; timeout:@)
    by (prover:"z33"; timeout:@)
    by (prover:"isabelle"; tactic:"force"; timeout:@)
    by (prover:"isabelle"; tactic:"(auto intro: setEqualI)"; timeout:@)
    by (prover:"isabelle"; tactic:"clarsimp auto?"; timeout:@)
    by (prover:"isabelle"; tactic:"clarsimp"; timeout:@)
    by (prover:"isabelle"; tactic:"auto, blast"; timeout:@)
  }*)

AllSMT == TRUE (*{
    by (prover:"cvc33")
    by (prover:"smt3")
    by (prover:"yices3")
    by (prover:"verit")
    by (prover:"z33")
  }*)
AllSMTT(X) == TRUE (*{
    by (prover:"cvc33"; timeout:@)
    by (prover:"smt3"; timeout:@)
    by (prover:"yices3"; timeout:@)
    by (prover:"verit"; timeout:@)
    by (prover:"z33"; timeout:@)
  }*)

AllIsa == TRUE (*{
    by (prover:"isabelle"; tactic:"auto")
    by (prover:"isabelle"; tactic:"force")
    by (prover:"isabelle"; tactic:"(auto intro: setEqualI)")
    by (prover:"isabelle"; tactic:"clarsimp auto?")
    by (prover:"isabelle"; tactic:"clarsimp")
    by (prover:"isabelle"; tactic:"auto, blast")
  }*)
AllIsaT(X) == TRUE (*{
    by (prover:"isabelle"; tactic:"auto"; timeout:@)
    by (prover:"isabelle"; tactic:"force"; timeout:@)
    by (prover:"isabelle"; tactic:"(auto intro: setEqualI)"; timeout:@)
    by (prover:"isabelle"; tactic:"clarsimp auto?"; timeout:@)
    by (prover:"isabelle"; tactic:"clarsimp"; timeout:@)
    by (prover:"isabelle"; tactic:"auto, blast"; timeout:@)
  }*)


(**************************************************************************)
(* The pragma ExpandEnabled invokes expansion of the operator ENABLED.    *)
(*                                                                        *)
(* The pragma ExpandCdot invokes expansion of the operator \cdot.         *)
(*                                                                        *)
(* The pragma AutoUSE invokes automated expansion of definitions,         *)
(* for both of ExpandEnabled and ExpandCdot, when each is present.        *)
(*                                                                        *)
(* The pragma Lambdify invokes expansion of the operators                 *)
(* ENABLED and \cdot to an intermediate form with bound VARIABLES,        *)
(* which is a form before introducing rigid quantifiers.                  *)
(* The pragma Lambdify is sound for occurrences of ENABLED and \cdot      *)
(* that are not nested.                                                   *)
(**************************************************************************)
ExpandENABLED == TRUE  (*{ by (prover:"expandenabled") }*)
ExpandCdot == TRUE  (*{ by (prover:"expandcdot") }*)
AutoUSE == TRUE  (*{ by (prover:"autouse") }*)
Lambdify == TRUE  (*{ by (prover:"lambdify") }*)
ENABLEDaxioms == TRUE  (*{ by (prover:"enabledaxioms") }*)
LevelComparison == TRUE  (*{ by (prover:"levelcomparison") }*)

(* The operators EnabledWrapper and CdotWrapper occur in an intermediate  *)
(* representation within TLAPM.                                           *)
EnabledWrapper(Op(_)) == FALSE
CdotWrapper(Op(_)) == FALSE

(***************************************************************************)
(* The following may be used in a `BY ONLY ThmName` for unit testing the   *)
(* triviality checks in TLAPM.                                             *)
(***************************************************************************)
Trivial == TRUE  (*{ by (prover:"trivial") }*)


=============================================================================

The material below is obsolete: the TLA proof rules below are superseded by
the PTL decision procedure, and their formulation is unsound for the semantics
of temporal reasoning that TLAPS adopts.

----------------------------------------------------------------------------
(***************************************************************************)
(*                           TEMPORAL LOGIC                                *)
(*                                                                         *)
(* The following rules are intended to be used when TLAPS handles temporal *)
(* logic.  They will not work now.  Moreover when temporal reasoning is    *)
(* implemented, these rules may be changed or omitted, and additional      *)
(* rules will probably be added.  However, they are included mainly so     *)
(* their names will be defined, preventing the use of identifiers that are *)
(* likely to produce name clashes with future versions of this module.     *)
(***************************************************************************)


(***************************************************************************)
(* The following proof rules (and their names) are from the paper "The     *)
(* Temporal Logic of Actions".                                             *)
(***************************************************************************)
THEOREM RuleTLA1 == ASSUME STATE P, STATE f,
                           P /\ (f' = f) => P'
                    PROVE  []P <=> P /\ [][P => P']_f

THEOREM RuleTLA2 == ASSUME STATE P, STATE Q, STATE f, STATE g,
                           ACTION A, ACTION B,
                           P /\ [A]_f => Q /\ [B]_g
                    PROVE  []P /\ [][A]_f => []Q /\ [][B]_g

THEOREM RuleINV1 == ASSUME STATE I, STATE F,  ACTION N,
                           I /\ [N]_F => I'
                    PROVE  I /\ [][N]_F => []I

THEOREM RuleINV2 == ASSUME STATE I, STATE f, ACTION N
                    PROVE  []I => ([][N]_f <=> [][N /\ I /\ I']_f)

THEOREM RuleWF1 == ASSUME STATE P, STATE Q, STATE f, ACTION N, ACTION A,
                          P /\ [N]_f => (P' \/ Q'),
                          P /\ <<N /\ A>>_f => Q',
                          P => ENABLED <<A>>_f
                   PROVE  [][N]_f /\ WF_f(A) => (P ~> Q)

THEOREM RuleSF1 == ASSUME STATE P, STATE Q, STATE f,
                          ACTION N, ACTION A, TEMPORAL F,
                          P /\ [N]_f => (P' \/ Q'),
                          P /\ <<N /\ A>>_f => Q',
                          []P /\ [][N]_f /\ []F => <> ENABLED <<A>>_f
                   PROVE  [][N]_f /\ SF_f(A) /\ []F => (P ~> Q)

(***************************************************************************)
(* The rules WF2 and SF2 in "The Temporal Logic of Actions" are obtained   *)
(* from the following two rules by the following substitutions: `.         *)
(*                                                                         *)
(*          ___        ___         _______________                         *)
(*      M <- M ,   g <- g ,  EM <- ENABLED <<M>>_g       .'                *)
(***************************************************************************)
THEOREM RuleWF2 == ASSUME STATE P, STATE f, STATE g, STATE EM,
                          ACTION A, ACTION B, ACTION N, ACTION M,
                          TEMPORAL F,
                          <<N /\ B>>_f => <<M>>_g,
                          P /\ P' /\ <<N /\ A>>_f /\ EM => B,
                          P /\ EM => ENABLED A,
                          [][N /\ ~B]_f /\ WF_f(A) /\ []F /\ <>[]EM => <>[]P
                   PROVE  [][N]_f /\ WF_f(A) /\ []F => []<><<M>>_g \/ []<>(~EM)

THEOREM RuleSF2 == ASSUME STATE P, STATE f, STATE g, STATE EM,
                          ACTION A, ACTION B, ACTION N, ACTION M,
                          TEMPORAL F,
                          <<N /\ B>>_f => <<M>>_g,
                          P /\ P' /\ <<N /\ A>>_f /\ EM => B,
                          P /\ EM => ENABLED A,
                          [][N /\ ~B]_f /\ SF_f(A) /\ []F /\ []<>EM => <>[]P
                   PROVE  [][N]_f /\ SF_f(A) /\ []F => []<><<M>>_g \/ <>[](~EM)


(***************************************************************************)
(* The following rule is a special case of the general temporal logic      *)
(* proof rule STL4 from the paper "The Temporal Logic of Actions".  The    *)
(* general rule is for arbitrary temporal formulas F and G, but it cannot  *)
(* yet be handled by TLAPS.                                                *)
(***************************************************************************)
THEOREM RuleInvImplication ==
  ASSUME STATE F, STATE G,
         F => G
  PROVE  []F => []G
PROOF OMITTED

(***************************************************************************)
(* The following rule is a special case of rule TLA2 from the paper "The   *)
(* Temporal Logic of Actions".                                             *)
(***************************************************************************)
THEOREM RuleStepSimulation ==
  ASSUME STATE I, STATE f, STATE g,
         ACTION M, ACTION N,
         I /\ I' /\ [M]_f => [N]_g
  PROVE  []I /\ [][M]_f => [][N]_g
PROOF OMITTED

(***************************************************************************)
(* The following may be used to invoke a decision procedure for            *)
(* propositional temporal logic.                                           *)
(***************************************************************************)
PropositionalTemporalLogic == TRUE
=============================================================================
