--------------------------------- MODULE SiCount ---------------------------------
(***************************************************************************)
(* Count-level abstraction of SiStream (same public calls, integers only): *)
(* the private counters _skip, _x_rem, _y_rem of the short-integration     *)
(* computer and the number of frames emitted, for UNBOUNDED signal length  *)
(* and chunk sizes.  Apalache checks the inductive invariant (conservation *)
(* of samples) for a fixed configuration at real sizes; TLC for small      *)
(* bounds.  Centered = 1 for frame_style "centered", 0 for "causal".       *)
(* Precondition of C03: M - K > S, K = T (causal) or T - S (centered).      *)
(***************************************************************************)
EXTENDS Integers
CONSTANTS
  \* @type: Int;
  S,
  \* @type: Int;
  M,
  \* @type: Int;
  T,
  \* @type: Int;
  D,
  \* @type: Int;
  Centered,
  \* @type: Int;
  MaxChunk
VARIABLES
  \* @type: Bool;
  started,
  \* @type: Int;
  skip,
  \* @type: Int;
  xRem,
  \* @type: Int;
  yRem,
  \* @type: Int;
  fed,
  \* @type: Int;
  emitted,
  \* @type: Bool;
  finalized,
  \* @type: Bool;
  bad
vars == <<started, skip, xRem, yRem, fed, emitted, finalized, bad>>
V == D - M + 1
K == IF Centered = 1 THEN T - S ELSE T
Skip0 == IF K > 0 THEN K ELSE 0
Phantom == IF K < 0 THEN -K ELSE 0
Max0(x) == IF x > 0 THEN x ELSE 0
Min(a, b) == IF a < b THEN a ELSE b
NumFramesSI(n) == (n + (S \div 2)) \div S

\* counters after the preamble of the first chunk of an utterance
Sk == IF started THEN skip ELSE Skip0
Xr == IF started THEN xRem ELSE Phantom
Yr == IF started THEN yRem ELSE 0

\* compute_chunk(c samples): returns the number of frames and the new counters
ChNf(sk, xr, yr, c) == LET clen == c - Min(sk, c) IN Max0(((xr + clen + yr) \div S) - 1)
ChNd(sk, xr, yr, c) ==
  LET clen == c - Min(sk, c)
      numRaw == xr + clen
      nd0 == numRaw \div V
      nfr == ChNf(sk, xr, yr, c)
      nproc == IF nfr > 0 THEN (nfr + 1) * S ELSE yr
  IN IF nproc - yr > nd0 * V THEN nd0 + 1 ELSE nd0
ChProduced(sk, xr, yr, c) == LET numRaw == xr + c - Min(sk, c) IN Min(ChNd(sk, xr, yr, c) * V, numRaw)

Init == started = FALSE /\ skip = 0 /\ xRem = 0 /\ yRem = 0 /\ fed = 0 /\ emitted = 0 /\ finalized = FALSE /\ bad = FALSE

Chunk(c) ==
  /\ c >= 0 /\ ~finalized
  /\ LET nfr == ChNf(Sk, Xr, Yr, c)
         prod == ChProduced(Sk, Xr, Yr, c)
         numRaw == Xr + c - Min(Sk, c)
     IN /\ emitted' = emitted + nfr
        /\ skip' = Sk - Min(Sk, c)
        /\ yRem' = Yr + prod - nfr * S
        /\ xRem' = Max0(numRaw - ChNd(Sk, Xr, Yr, c) * V)
        \* the code's own assertion: the frames emitted while filling equal the number computed up front
        /\ bad' = (bad \/ Max0(((Yr + prod) \div S) - 1) # nfr)
  /\ fed' = fed + c /\ started' = TRUE /\ UNCHANGED finalized

Finalize ==
  /\ ~finalized
  /\ IF started
     THEN LET bl == K - skip + xRem + yRem
              nf == Max0((bl + (S \div 2)) \div S)
              pr == (nf - 1) * S + (M + S - 1) - bl
              got == IF nf >= 1 THEN ChNf(skip, xRem, yRem, pr) ELSE 0
          IN /\ emitted' = emitted + nf
             /\ bad' = (bad \/ (nf >= 1 /\ (pr < 0 \/ got < nf)))
     ELSE emitted' = emitted /\ bad' = bad
  /\ finalized' = TRUE /\ started' = FALSE /\ UNCHANGED <<skip, xRem, yRem, fed>>

Next == (\E c \in 0..MaxChunk : Chunk(c)) \/ Finalize
Spec == Init /\ [][Next]_vars
Bounded == fed <= 4 * D + 3

C03_FrameCount == finalized => (emitted = NumFramesSI(fed) /\ ~bad)
IndInv ==
  /\ fed >= 0 /\ emitted >= 0 /\ skip >= 0 /\ xRem >= 0 /\ yRem >= 0 /\ ~bad
  /\ (~started /\ ~finalized) => (fed = 0 /\ emitted = 0)
  /\ (started /\ ~finalized) =>
        /\ emitted * S + yRem + xRem = fed - K + skip
        /\ yRem < 2 * S /\ skip <= Skip0
        /\ (skip > 0 => (xRem = 0 /\ yRem = 0 /\ emitted = 0))
  /\ finalized => emitted = NumFramesSI(fed)
IndInit ==
  /\ started \in BOOLEAN /\ skip \in Int /\ xRem \in Int /\ yRem \in Int /\ fed \in Int /\ emitted \in Int
  /\ finalized \in BOOLEAN /\ bad \in BOOLEAN
  /\ IndInv
===============================================================================
