\* constant evaluation
