CONSTANTS
  MaxClasses = 0
  Aliases = {}
  WalkOrder = "post"
SPECIFICATION TSpec
CHECK_DEADLOCK FALSE
