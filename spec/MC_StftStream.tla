---------------------------- MODULE MC_StftStream ----------------------------
EXTENDS StftStream
Styles == {"causal", "centered", "kaldi"}
CfgQuick == {[L |-> l, S |-> s, st |-> t] : l \in 2..5, s \in 1..5, t \in Styles} \cap
            {c \in [L : 2..5, S : 1..5, st : Styles] : c.S <= c.L}
CfgTiny == {c \in [L : 2..3, S : 1..3, st : Styles] : c.S <= c.L}
CfgThorough == {c \in [L : 2..8, S : 1..8, st : Styles] : c.S <= c.L}
\* compute_full with a frame shift longer than the frame (outside C01's precondition, inside C02's range)
CfgGapped == UNION {{[L |-> l, S |-> s, st |-> t] : s \in {l + 1, 2 * l + 1, 2 * l + 3}, t \in Styles} : l \in 2..5}
C02_GappedFullIsDefinition ==
  \A c \in CfgGapped : \A n \in 0..(3 * c.S + 3) : FullImplC(c, n, 0) = FullFrames(n, c.L, c.S, c.st, 0)
ASSUME C02_GappedFullIsDefinition
===============================================================================
