---------------------------- MODULE MC_StftStream ----------------------------
EXTENDS StftStream
Styles == {"causal", "centered", "kaldi"}
CfgQuick == {[L |-> l, S |-> s, st |-> t] : l \in 2..5, s \in 1..5, t \in Styles} \cap
            {c \in [L : 2..5, S : 1..5, st : Styles] : c.S <= c.L}
CfgTiny == {c \in [L : 2..3, S : 1..3, st : Styles] : c.S <= c.L}
CfgThorough == {c \in [L : 2..8, S : 1..8, st : Styles] : c.S <= c.L}
===============================================================================
