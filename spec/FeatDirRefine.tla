----------------------------- MODULE FeatDirRefine -----------------------------
(* FeatDir.tla (sequences, buffer, loader workers, bounded crashes) refines FeatDirAbs.tla (sets; proved with    *)
(* TLAPS for every N and any number of crashes) under the mapping below - checked by TLC for the code's rules.  *)
EXTENDS FeatDir
Abs == INSTANCE FeatDirAbs WITH
         disk <- Range(disk),
         rest <- {todo[k] : k \in i..Len(todo)},
         cur <- IF pc \in {"saving", "writing", "saved"} THEN todo[i] ELSE 0,
         startM <- startManifest
AbsSpec == Abs!Spec
AbsInv == Abs!Inv
===============================================================================
