-------------------------- MODULE MC_TraceStandardize --------------------------
EXTENDS TraceStandardize
PathsT == {[name |-> "a", kind |-> "npy"], [name |-> "b", kind |-> "npz"], [name |-> "c", kind |-> "raw"], [name |-> "d", kind |-> "npz"],
           [name |-> "e", kind |-> "raw"], [name |-> "f", kind |-> "raw"],
           [name |-> "g", kind |-> "npy"], [name |-> "h", kind |-> "npz"]}
===============================================================================
