------------------------------ MODULE TracePreOps ------------------------------
(***************************************************************************)
(* Trace validation for C18 (Preemphasize): the harness keeps every array  *)
(* it passed in or got back (index = object identity) and, after each real *)
(* apply() call, records which object came back and the contents of every  *)
(* array it holds.  Each event must satisfy the property's clauses.        *)
(***************************************************************************)
EXTENDS Integers, Sequences, TLC, Json, IOUtils
Traces == ndJsonDeserialize(IOEnv.TRACE_FILE)
VARIABLES vis, tid, l, nfail
vars == <<vis, tid, l, nfail>>
Recur(x, c) == [i \in 1..Len(x) |-> IF i = 1 THEN x[1] ELSE x[i] - c * x[i - 1]]
Ev == Traces[tid].events[l]
Why ==
  LET old == vis[Ev.src]
      want == Recur(old.vals, Ev.c)
      n == Len(vis)
  IN IF Ev.err # "" THEN "C18_Raised_" \o Ev.err
     ELSE IF Ev.ret < 1 \/ Ev.ret > n + 1 \/ Len(Ev.heap) # (IF Ev.ret = n + 1 THEN n + 1 ELSE n) THEN "harness_bookkeeping"
     ELSE IF Ev.heap[Ev.ret].vals # want THEN "C18_PreemphRecurrence"
     ELSE IF Ev.heap[Ev.ret].dt # old.dt THEN "C18_ResultDtypeIsInputDtype"
     ELSE IF ~Ev.ip /\ Ev.heap[Ev.src] # old THEN "C18_InputUntouchedUnlessInPlace"
     ELSE IF Ev.ip /\ Ev.heap[Ev.src] # old /\ Ev.heap[Ev.src].vals # want THEN "C18_InPlaceLeavesGarbage"
     ELSE IF \E k \in 1..n : k # Ev.src /\ k # Ev.ret /\ Ev.heap[k] # vis[k] THEN "C18_OtherArrayModified"
     ELSE ""
Step == /\ tid <= Len(Traces) /\ l <= Len(Traces[tid].events)
        /\ Why = ""
        /\ vis' = Ev.heap /\ l' = l + 1 /\ UNCHANGED <<tid, nfail>>
Advance ==
  /\ tid <= Len(Traces)
  /\ LET exhausted == l > Len(Traces[tid].events)
         failed == ~exhausted /\ Why # ""
     IN /\ exhausted \/ failed
        /\ IF failed THEN PrintT(<<"REJECTED", Traces[tid].tid, l, Why>>) ELSE TRUE
        /\ nfail' = nfail + (IF failed THEN 1 ELSE 0)
        /\ tid' = tid + 1 /\ l' = 1
        /\ IF tid < Len(Traces) THEN vis' = Traces[tid + 1].init
           ELSE /\ PrintT(<<"DONE", Len(Traces), nfail'>>) /\ UNCHANGED vis
TInit == tid = 1 /\ l = 1 /\ nfail = 0 /\ vis = Traces[1].init
TNext == Step \/ Advance
TSpec == TInit /\ [][TNext]_vars
===============================================================================
