------------------------------- MODULE SphereRead -------------------------------
(***************************************************************************)
(* C12: the read loop of _sphere.copy_samples for uncompressed data, with  *)
(* the real read size (16384 bytes) and byte *intervals* instead of bytes. *)
(*                                                                         *)
(* F: bytes per sample frame (sample_n_bytes x channel_count); promised:   *)
(* the header's sample_count; avail: data bytes actually present.          *)
(* Definition: the result is the first min(promised, avail div F) frames,  *)
(* in order; a warning exactly when that is fewer than promised.           *)
(* ReadRule = "whole_frames" (the code: the read size is rounded down to a *)
(* multiple of F) | "fixed" (canary, the pre-repair loop: a partial frame  *)
(* at the end of each read is dropped and the stream goes out of step).    *)
(***************************************************************************)
EXTENDS Integers, Sequences, FiniteSets, TLC
CONSTANTS Fs, ReadRule, BUF
Max(a, b) == IF a > b THEN a ELSE b
Min(a, b) == IF a < b THEN a ELSE b
VARIABLES F, promised, avail, pos, done, out, finished
vars == <<F, promised, avail, pos, done, out, finished>>

BufSize == IF ReadRule = "whole_frames" THEN Max(1, BUF \div F) * F ELSE BUF
Cands(f) == LET base == {0, 1, f - 1, f, f + 1} \cup UNION {{k * BUF - f, k * BUF - 1, k * BUF, k * BUF + 1, k * BUF + f} : k \in 1..3}
            IN {x \in base : x >= 0}
Init == /\ F \in Fs
        /\ promised \in {p \div F : p \in Cands(F)} \cup {(p \div F) + 1 : p \in Cands(F)} /\ promised >= 1
        /\ avail \in Cands(F)
        /\ pos = 0 /\ done = 0 /\ out = <<>> /\ finished = FALSE
\* one iteration of `while sampsdone < sampcount`
Read == /\ ~finished
        /\ IF done >= promised THEN finished' = TRUE /\ UNCHANGED <<pos, done, out>>
           ELSE LET nb == Min(BufSize, avail - pos) IN
                IF nb = 0 THEN finished' = TRUE /\ UNCHANGED <<pos, done, out>>
                ELSE LET ns0 == nb \div F
                         ns == IF done + ns0 > promised THEN promised - done ELSE ns0
                     IN /\ out' = IF ns > 0 THEN Append(out, <<pos, pos + ns * F>>) ELSE out
                        /\ done' = done + ns /\ pos' = pos + nb /\ finished' = FALSE
        /\ UNCHANGED <<F, promised, avail>>
Next == Read
Spec == Init /\ [][Next]_vars /\ WF_vars(Next)

Frames == Min(promised, avail \div F)
\* the intervals copied, concatenated, are exactly the first Frames frames
RECURSIVE Contig(_, _)
Contig(s, from) == IF s = <<>> THEN from ELSE IF s[1][1] # from THEN -1 ELSE Contig(Tail(s), s[1][2])
C12_AllPresentFramesInOrder == finished => (Contig(out, 0) = Frames * F /\ done = Frames)
C12_PrefixAlways == Contig(out, 0) = done * F
C12_ShortDataWarns == finished => ((done # promised) <=> (avail \div F < promised))
Terminates == <>finished
===============================================================================
