CONSTANTS
  N = 4
  MaxCrash = 3
  Workers = 2
  SeedRule = "mapindex"
  FlushRule = "line"
SPECIFICATION Spec
INVARIANT C10_ManifestOnlyComplete
INVARIANT C10_ManifestLagsByAtMostOne
INVARIANT C10_ResumeEqualsUninterrupted
INVARIANT C10_NoDup
PROPERTY C10_NoRecompute
PROPERTY C10_ManifestOnlyGrows
PROPERTY C10_ListedFileStaysComplete
PROPERTY EventuallyDone
CHECK_DEADLOCK FALSE
