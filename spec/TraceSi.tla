-------------------------------- MODULE TraceSi --------------------------------
(***************************************************************************)
(* Trace validation, code -> spec, of the implementation-shaped SiStream:  *)
(* each recorded public call of a real SIFrameComputer - argument summary, *)
(* whether it raised ValueError, number of frames returned and the private *)
(* counters _skip/_x_rem/_y_rem after the call - must be the SiStream      *)
(* action with those arguments and that post-state.  A rejection here      *)
(* means "the code does not follow the model of the code"; whether that is *)
(* a violation is decided at the level of the property's observables       *)
(* (values against the definition), see harness/si_model.py.               *)
(***************************************************************************)
EXTENDS SiStream, Json, IOUtils

Traces == ndJsonDeserialize(IOEnv.TRACE_FILE)
VARIABLES tid, l, nfail
tvars == <<vars, tid, l, nfail>>

Ev == Traces[tid].events[l]

Step ==
  /\ tid <= Len(Traces) /\ l <= Len(Traces[tid].events)
  /\ CASE Ev.a = "chunk" -> Chunk(Ev.c, Ev.d)
       [] Ev.a = "finalize" -> Finalize
       [] Ev.a = "full" -> Full(Ev.n, Ev.d)
  /\ err' = Ev.err
  /\ ~bad'
  /\ started' = Ev.st
  /\ (~Ev.err => /\ Len(ret') = Ev.nret
                 /\ skip' = Ev.p.skip /\ xRem' = Ev.p.xRem /\ yRem' = Ev.p.yRem)
  /\ l' = l + 1 /\ UNCHANGED <<tid, nfail>>

Why == IF ~ENABLED Step THEN "impl_step_mismatch" ELSE ""

Fresh(c) ==
  /\ cfg' = c /\ started' = FALSE /\ skip' = 0 /\ xRem' = 0 /\ yRem' = 0
  /\ xbuf' = [i \in 1..c.D |-> -7]
  /\ ybuf' = [b \in 1..CeilDiv(c.D - c.M + 2 * c.S, c.S) |-> <<SetToBag({<<-7, -7, -7>>}), SetToBag({<<-7, -7, -7>>})>>]
  /\ ynext' = 0 /\ rdt' = "f8" /\ utt' = 0 /\ fed' = 0 /\ out' = <<>> /\ ret' = <<>>
  /\ err' = FALSE /\ just' = "init" /\ bad' = FALSE

Advance ==
  /\ tid <= Len(Traces)
  /\ LET exhausted == l > Len(Traces[tid].events)
         failed == ~exhausted /\ ~ENABLED Step
     IN /\ exhausted \/ failed
        /\ IF failed THEN PrintT(<<"REJECTED", Traces[tid].tid, l, "impl_step_mismatch">>) ELSE TRUE
        /\ nfail' = nfail + (IF failed THEN 1 ELSE 0)
        /\ tid' = tid + 1 /\ l' = 1
        /\ IF tid < Len(Traces) THEN Fresh(Traces[tid + 1].cfg)
           ELSE /\ PrintT(<<"DONE", Len(Traces), nfail'>>)
                /\ UNCHANGED vars

TInit == /\ tid = 1 /\ l = 1 /\ nfail = 0
         /\ cfg = Traces[1].cfg /\ started = FALSE /\ skip = 0 /\ xRem = 0 /\ yRem = 0
         /\ xbuf = [i \in 1..cfg.D |-> -7]
         /\ ybuf = [b \in 1..CeilDiv(cfg.D - cfg.M + 2 * cfg.S, cfg.S) |-> <<SetToBag({<<-7, -7, -7>>}), SetToBag({<<-7, -7, -7>>})>>]
         /\ ynext = 0 /\ rdt = "f8" /\ utt = 0 /\ fed = 0 /\ out = <<>> /\ ret = <<>>
         /\ err = FALSE /\ just = "init" /\ bad = FALSE
TNext == Step \/ Advance
TSpec == TInit /\ [][TNext]_tvars
\* the model-level invariants are evaluated in every state of every observed execution too
TC03_FrameCount == C03_FrameCount
TC01_SiStreamEqualsDef == C01_SiStreamEqualsDef
TC03_EachPairOnce == C03_EachPairOnce
===============================================================================
