---------------------------- MODULE TraceStandardize ----------------------------
(***************************************************************************)
(* Trace validation for C16 / C17: call sequences on real Standardize      *)
(* objects and real files.  Each event carries the call's arguments, the   *)
(* exception class ("" if none) and what could be observed afterwards: the *)
(* instance's exact integer statistics and, for save, the file as numpy    *)
(* reads it back.  The event must be the Standardize action with those     *)
(* arguments and that outcome.                                             *)
(***************************************************************************)
EXTENDS Standardize, Json, IOUtils
Traces == ndJsonDeserialize(IOEnv.TRACE_FILE)
VARIABLES tid, l, nfail
tvars == <<vars, tid, l, nfail>>
Ev == Traces[tid].events[l]
St(o) == IF o.n = 0 /\ Len(o.sum) = 0 THEN None ELSE [n |-> o.n, sum |-> o.sum, sq |-> o.sq]
P(o) == [name |-> o.name, kind |-> o.kind]
FileOf(o) == CASE o.kind = "absent" -> Absent
               [] o.kind \in {"npy", "raw"} -> [kind |-> o.kind, stats |-> St(o.stats)]
               [] o.kind = "npz" -> [kind |-> "npz", entries |-> {[key |-> o.entries[k].key, stats |-> St(o.entries[k].stats)] : k \in 1..Len(o.entries)}]
               [] OTHER -> [kind |-> o.kind]   \* e.g. "unreadable:<exception>": matches no state of the model, so the event is rejected
Act == CASE Ev.op = "accv" -> AccVector(Ev.i, Ev.v)
         [] Ev.op = "acct" -> AccTensor(Ev.i, VectorsOf(Ev.flat, Ev.shape, Ev.axis1))   \* the spec reads the layout
         [] Ev.op = "save" -> Save(Ev.i, P(Ev.p), Ev.key, Ev.ow)
         [] Ev.op = "load" -> Load(Ev.j, P(Ev.p), Ev.key)
         [] Ev.op = "template" -> Template(P(Ev.p), Ev.D, Ev.key)
\* what an instance shows of its statistics through its public interface (have_stats, save): nothing while it has no data,
\* whether it knows a dimension already (loaded from an all-zero template) or not
Shown(x) == IF x # None /\ x.n = 0 THEN None ELSE x
Obs == CASE Ev.op \in {"accv", "acct"} -> Shown(inst'[Ev.i]) = St(Ev.stats)
         [] Ev.op = "save" -> fs'[P(Ev.p)] = FileOf(Ev.file) /\ Shown(inst'[Ev.i]) = St(Ev.stats)
         [] Ev.op = "load" -> (Ev.err = "" => Shown(inst'[Ev.j]) = St(Ev.stats))
         [] Ev.op = "template" -> fs'[P(Ev.p)] = FileOf(Ev.file)
StepErr == Act /\ err' # Ev.err
StepObs == Act /\ err' = Ev.err /\ ~Obs
TStep == /\ tid <= Len(Traces) /\ l <= Len(Traces[tid].events)
         /\ Act /\ err' = Ev.err /\ Obs
         /\ l' = l + 1 /\ UNCHANGED <<tid, nfail>>
Fresh == /\ inst' = [i \in 1..NInst |-> None] /\ bag' = [i \in 1..NInst |-> <<>>] /\ base' = [i \in 1..NInst |-> None]
         /\ fs' = [p \in Paths |-> Absent] /\ err' = "" /\ nops' = 0 /\ lastSaved' = [p \in Paths |-> None]
         /\ lastOp' = [op |-> "init", ow |-> FALSE]
TAdvance ==
  /\ tid <= Len(Traces)
  /\ LET exhausted == l > Len(Traces[tid].events)
         failed == ~exhausted /\ ~ENABLED TStep
         why == IF exhausted THEN "" ELSE IF ENABLED StepErr THEN "exception_class_" \o Ev.op
                ELSE IF ENABLED StepObs THEN "observed_state_" \o Ev.op ELSE "action_not_enabled_" \o Ev.op
     IN /\ exhausted \/ failed
        /\ IF failed THEN PrintT(<<"REJECTED", Traces[tid].tid, l, why>>) ELSE TRUE
        /\ nfail' = nfail + (IF failed THEN 1 ELSE 0)
        /\ tid' = tid + 1 /\ l' = 1
        /\ IF tid < Len(Traces) THEN Fresh
           ELSE /\ PrintT(<<"DONE", Len(Traces), nfail'>>) /\ UNCHANGED vars
TInit == tid = 1 /\ l = 1 /\ nfail = 0 /\ Init
TNext == TStep \/ TAdvance
TSpec == TInit /\ [][TNext]_tvars
===============================================================================
