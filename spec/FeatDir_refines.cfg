CONSTANTS
  N = 4
  MaxCrash = 3
  Workers = 1
  SeedRule = "mapindex"
  FlushRule = "line"
SPECIFICATION Spec
PROPERTY AbsSpec
INVARIANT AbsInv
CHECK_DEADLOCK FALSE
