CONSTANTS
  Versions = {2}
  Ftypes = {5}
  Nchans = {1}
  Blocksizes = {1}
  Maxnlpcs = {0}
  Nmeans = {0}
  Resns = {0}
  SampleVals = {0}
  CoefVals = {0}
  Shifts = {0}
  MaxBlocks = 1
  CmdSet = {0}
  MeanRule = "c99"
SPECIFICATION Spec
CONSTRAINT Stop
CHECK_DEADLOCK FALSE
