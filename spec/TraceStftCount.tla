------------------------------ MODULE TraceStftCount ------------------------------
(***************************************************************************)
(* Trace validation at REAL sizes (L = 400, S = 160, N in the thousands)   *)
(* against the count-level machine: recorded compute_chunk / finalize      *)
(* calls of a real STFTFrameComputer with the number of frames returned.   *)
(* Property level (alarm): the frames returned up to and including         *)
(* finalize number NumFrames(fed), `started` follows the protocol.         *)
(* Implementation level (reported, not an alarm): every call returns the   *)
(* model's per-call count and leaves the model's private counters.         *)
(***************************************************************************)
EXTENDS StftCountDef, Sequences, TLC, Json, IOUtils
Traces == ndJsonDeserialize(IOEnv.TRACE_FILE)
VARIABLES bufLen, first, fed, emitted, diverged, tid, l, nfail
vars == <<bufLen, first, fed, emitted, diverged, tid, l, nfail>>
C == Traces[tid].cfg
Ev == Traces[tid].events[l]
\* a compute_full event (logged by the hooks when the repository's own tests are traced): it does not touch the
\* streaming state, returns NumFrames(c) frames, and is only legal while no utterance is in progress
Why == IF Ev.a = "full" THEN (IF Ev.nret # NumFramesP(Ev.c, C.L, C.S) THEN "C02_FrameCount"
                              ELSE IF Ev.st THEN "C04_FullWhileStarted" ELSE "")
       ELSE IF Ev.a = "chunk" THEN (IF ~Ev.st THEN "C04_StartedAfterChunk" ELSE "")
       ELSE IF Ev.st THEN "C04_NotStartedAfterFinalize"
       ELSE IF emitted + Ev.nret # NumFramesP(fed, C.L, C.S) THEN "C01_FrameCount" ELSE ""
ImplOK == IF Ev.a = "full" THEN Ev.p.bl = bufLen /\ Ev.p.ff = first
          ELSE IF Ev.a = "chunk"
          THEN /\ Ev.nret = ChunkNf(C.L, C.S, C.st, bufLen, first, Ev.c)
               /\ Ev.p.bl = ChunkBufLen(C.L, C.S, C.st, bufLen, first, Ev.c)
               /\ Ev.p.ff = (first /\ Ev.nret = 0)
          ELSE Ev.nret = FinalizeNf(C.L, C.S, C.st, bufLen, first) /\ Ev.p.bl = 0 /\ Ev.p.ff
Step == /\ tid <= Len(Traces) /\ l <= Len(Traces[tid].events) /\ Why = ""
        /\ diverged' = (diverged \/ ~ImplOK)
        /\ IF ~diverged /\ ~ImplOK THEN PrintT(<<"DIVERGED", Traces[tid].tid, l>>) ELSE TRUE
        \* follow the code's own counters so that one divergence is reported once
        /\ bufLen' = Ev.p.bl /\ first' = Ev.p.ff
        /\ fed' = (IF Ev.a = "chunk" THEN fed + Ev.c ELSE IF Ev.a = "full" THEN fed ELSE 0)
        /\ emitted' = (IF Ev.a = "chunk" THEN emitted + Ev.nret ELSE IF Ev.a = "full" THEN emitted ELSE 0)
        /\ l' = l + 1 /\ UNCHANGED <<tid, nfail>>
Advance ==
  /\ tid <= Len(Traces)
  /\ LET exhausted == l > Len(Traces[tid].events)
         failed == ~exhausted /\ Why # ""
     IN /\ exhausted \/ failed
        /\ IF failed THEN PrintT(<<"REJECTED", Traces[tid].tid, l, Why>>) ELSE TRUE
        /\ nfail' = nfail + (IF failed THEN 1 ELSE 0)
        /\ tid' = tid + 1 /\ l' = 1
        /\ bufLen' = 0 /\ first' = TRUE /\ fed' = 0 /\ emitted' = 0 /\ diverged' = FALSE
        /\ IF tid = Len(Traces) THEN PrintT(<<"DONE", Len(Traces), nfail'>>) ELSE TRUE
TInit == tid = 1 /\ l = 1 /\ nfail = 0 /\ bufLen = 0 /\ first = TRUE /\ fed = 0 /\ emitted = 0 /\ diverged = FALSE
TNext == Step \/ Advance
TSpec == TInit /\ [][TNext]_vars
===============================================================================
