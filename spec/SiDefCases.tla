------------------------------ MODULE SiDefCases ------------------------------
(* spec -> code: the definition frames (SiDef) of every case listed in IN_FILE  *)
(* (JSON array of {style, S, M, T, D, N}), e.g. real banks at real sizes (C03). *)
EXTENDS SiDef, Sequences, FiniteSets, Json, IOUtils, TLC, SequencesExt
Cases == JsonDeserialize(IOEnv.IN_FILE)
\* a frame is 2S consecutive output indices: export first index and which columns are live
Row(c) == [cfg |-> c, N |-> c.N, nframes |-> SiNumFrames(c.N, c),
           frames |-> [k \in 1..SiNumFrames(c.N, c) |-> SetToSeq(SiDefPairs(k - 1, c.N, c))]]
Table == [i \in 1..Len(Cases) |-> Row(Cases[i])]
ASSUME JsonSerialize(IOEnv.OUT_FILE, Table)
ASSUME PrintT(<<"EXPORTED", Len(Table)>>)
===============================================================================
