CONSTANTS
  Versions <- V12
  Ftypes = {3}
  Nchans = {1}
  Blocksizes = {3}
  Maxnlpcs = {1}
  Nmeans = {1}
  Resns = {1}
  SampleVals <- LpcVals
  CoefVals <- LpcCoefs
  Shifts = {0}
  MaxBlocks = 2
  CmdSet <- LpcCmds
  MeanRule = "floor"
SPECIFICATION Spec
INVARIANT C13_DecodeOfEncodeIsIdentity
INVARIANT C13_TruncatedStreamIsIOError
INVARIANT DecoderTerminates
CHECK_DEADLOCK FALSE
