CONSTANTS
  Versions <- V12
  Ftypes <- SimFtypes
  Nchans = {1, 2, 3}
  Blocksizes = {1, 2, 3, 4, 5, 8}
  Maxnlpcs = {0, 1, 2, 3}
  Nmeans = {0, 1, 2, 4}
  Resns = {0, 1, 3, 5}
  SampleVals <- SimVals
  CoefVals <- SimCoefs
  Shifts = {0, 1, 2, 3}
  MaxBlocks = 6
  CmdSet <- AllCmds
  MeanRule = "c99"
SPECIFICATION Spec
INVARIANT C13_DecodeOfEncodeIsIdentity
INVARIANT C13_UnknownVersion
INVARIANT C13_UnknownCommand
INVARIANT DecoderTerminates
INVARIANT ExportInv
CHECK_DEADLOCK FALSE
