CONSTANTS
  SF = {"wav", "flac", "aiff", "ogg"}
