CONSTANTS
  Versions = {2}
  Ftypes = {3}
  Nchans = {2}
  Blocksizes = {1}
  Maxnlpcs = {0}
  Nmeans = {1}
  Resns = {1}
  SampleVals <- TinyVals
  CoefVals = {0}
  Shifts = {0, 1}
  MaxBlocks = 4
  CmdSet <- Tiny2Cmds
  MeanRule = "c99"
SPECIFICATION Spec
INVARIANT C13_DecodeOfEncodeIsIdentity
INVARIANT C13_TruncatedStreamIsIOError
INVARIANT DecoderTerminates
CHECK_DEADLOCK FALSE
