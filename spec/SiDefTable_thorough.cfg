CONSTANTS
  Tier = "thorough"
  MaxN = 20
