------------------------------- MODULE FrameDef -------------------------------
(***************************************************************************)
(* What the documentation of pydrobert.speech.compute promises about how a *)
(* signal is cut into frames (frame_style / kaldi_shift docstrings), as    *)
(* pure operators over sample *tokens*.  Nothing here is taken from the    *)
(* implementation.  Used by StftStream, TraceStftDef, SpectrumWalk (C01,   *)
(* C02, C04, C14).                                                         *)
(*                                                                         *)
(* A token is an integer u * TokBase + i : sample i (0-based) of utterance *)
(* u.  J = -1 is "junk": buffer contents that were never written.          *)
(***************************************************************************)
EXTENDS Integers, Sequences

TokBase == 1000
J == -1
Tok(u, i) == u * TokBase + i

Max(a, b) == IF a > b THEN a ELSE b
Min(a, b) == IF a < b THEN a ELSE b

(* numpy.pad(..., "symmetric"): the 2N-periodic even extension, index i may *)
(* be any integer                                                          *)
Refl(i, N) == LET m == i % (2 * N) IN IF m < N THEN m ELSE 2 * N - 1 - m

(* style is "causal", "centered" (kaldi_shift = False) or "kaldi"          *)
(* (centered with kaldi_shift = True)                                      *)
PadLeft(L, S, st) ==
  CASE st = "causal"   -> 0
    [] st = "kaldi"    -> (L \div 2) - (S \div 2)
    [] st = "centered" -> ((L + 1) \div 2) - 1

MinLen(L) == (L \div 2) + 1

NumFrames(N, L, S) == IF N < MinLen(L) THEN 0 ELSE (N + (S \div 2)) \div S

(* frame k (0-based) of an N-sample signal of utterance u: L tokens         *)
Frame(k, N, L, S, st, u) ==
  [j \in 1..L |-> Tok(u, Refl(k * S - PadLeft(L, S, st) + j - 1, N))]

FullFrames(N, L, S, st, u) ==
  [k \in 1..NumFrames(N, L, S) |-> Frame(k - 1, N, L, S, st, u)]

(* ----- python helpers shared by the implementation-shaped modules ------- *)
Clamp(i, n) == IF i < 0 THEN Max(0, n + i) ELSE Min(i, n)
(* s[a:b] with Python semantics on a 1-based TLA+ sequence                  *)
PySlice(s, a, b) == LET n == Len(s)
                        aa == Clamp(a, n)
                        bb == Clamp(b, n)
                    IN IF bb <= aa THEN <<>> ELSE SubSeq(s, aa + 1, bb)
PyFrom(s, a) == PySlice(s, a, Len(s))
PyTo(s, b) == PySlice(s, 0, b)
(* numpy.pad(s, (l, r), "symmetric") for Len(s) >= 1                        *)
PadSym(s, l, r) == [i \in 1..(l + Len(s) + r) |-> s[Refl(i - 1 - l, Len(s)) + 1]]
(* s[a:a+len(t)] = t                                                        *)
Assign(s, a, t) == [i \in 1..Len(s) |->
                      IF i - 1 >= a /\ i - 1 < a + Len(t) THEN t[i - a] ELSE s[i]]
===============================================================================
