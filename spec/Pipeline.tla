--------------------------------- MODULE Pipeline ---------------------------------
(***************************************************************************)
(* C09: what the two command-line tools do with each utterance.            *)
(*                                                                         *)
(* An utterance is read, possibly excluded (too short for --min-duration,  *)
(* sampling-rate mismatch, channel out of range, already in the manifest), *)
(* otherwise goes through the configured pre-processors IN ORDER, the      *)
(* computer (or becomes a raw column when none is configured), the         *)
(* post-processors IN ORDER, and is written once under its own id.         *)
(* The kaldi tool has nothing to post-process when no frame was produced   *)
(* (EmptySkipsPost).                                                       *)
(***************************************************************************)
EXTENDS Integers, Sequences, FiniteSets, TLC
CONSTANTS Pre, Post,          \* sequences of processor names
          HasComputer, EmptySkipsPost,
          Utts,               \* set of utterance ids
          Excluded,           \* subset of Utts that a filter drops
          Empty,              \* subset of Utts that yield no frame
          PostRule            \* "apply" (the code) | "ignore" (canary: the pre-repair kaldi tool)
VARIABLES log, cur, stage, written, done
vars == <<log, cur, stage, written, done>>
None == "none"
Expected(u) ==
  IF u \in Excluded THEN <<>> ELSE
  <<"read">> \o [k \in 1..Len(Pre) |-> "pre:" \o Pre[k]]
  \o <<IF HasComputer THEN "compute" ELSE "raw_column">>
  \o (IF EmptySkipsPost /\ u \in Empty THEN <<>> ELSE [k \in 1..Len(Post) |-> "post:" \o Post[k]])
  \o <<"write">>
Init == log = [u \in Utts |-> <<>>] /\ cur = None /\ stage = 0 /\ written = <<>> /\ done = {}
Take(u) == /\ cur = None /\ u \notin done /\ cur' = u /\ stage' = 0 /\ UNCHANGED <<log, written, done>>
Skip == /\ cur # None /\ cur \in Excluded /\ done' = done \cup {cur} /\ cur' = None /\ UNCHANGED <<log, stage, written>>
\* the implementation-shaped steps
StepOf(u, k) ==
  LET npre == Len(Pre)
      posts == IF PostRule = "ignore" \/ (EmptySkipsPost /\ u \in Empty) THEN 0 ELSE Len(Post)
  IN IF k = 0 THEN "read"
     ELSE IF k <= npre THEN "pre:" \o Pre[k]
     ELSE IF k = npre + 1 THEN (IF HasComputer THEN "compute" ELSE "raw_column")
     ELSE IF k <= npre + 1 + posts THEN "post:" \o Post[k - npre - 1]
     ELSE IF k = npre + 2 + posts THEN "write" ELSE "end"
Advance == /\ cur # None /\ cur \notin Excluded /\ StepOf(cur, stage) # "end"
           /\ log' = [log EXCEPT ![cur] = Append(log[cur], StepOf(cur, stage))]
           /\ written' = IF StepOf(cur, stage) = "write" THEN Append(written, cur) ELSE written
           /\ stage' = stage + 1 /\ UNCHANGED <<cur, done>>
Finish == /\ cur # None /\ cur \notin Excluded /\ StepOf(cur, stage) = "end"
          /\ done' = done \cup {cur} /\ cur' = None /\ UNCHANGED <<log, stage, written>>
Next == (\E u \in Utts : Take(u)) \/ Skip \/ Advance \/ Finish
Spec == Init /\ [][Next]_vars /\ WF_vars(Next)
AllDone == done = Utts
C09_StagesInOrder == AllDone => \A u \in Utts : log[u] = Expected(u)
C09_ExcludedNotWritten == \A k \in 1..Len(written) : written[k] \notin Excluded
C09_EachIncludedUttOnce == AllDone => \A u \in Utts \ Excluded : Cardinality({k \in 1..Len(written) : written[k] = u}) = 1
Terminates == <>AllDone
===============================================================================
