---- MODULE MC_SiCount_2_5_2_8_0 ----
EXTENDS SiCount
\* @type: () => Bool;
ConstInit == S = 2 /\ M = 5 /\ T = 2 /\ D = 8 /\ Centered = 0 /\ MaxChunk = 100000
====
