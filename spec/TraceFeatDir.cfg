CONSTANTS
  N = 4
  MaxCrash = 1000
  Workers = 0
  SeedRule = "mapindex"
  FlushRule = "line"
SPECIFICATION TSpec
INVARIANT C10_ManifestOnlyComplete
INVARIANT C10_ManifestLagsByAtMostOne
INVARIANT C10_ResumeEqualsUninterrupted
INVARIANT C10_NoDup
CHECK_DEADLOCK FALSE
