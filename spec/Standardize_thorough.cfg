CONSTANTS
  NInst = 2
  Vecs <- VecsQ
  Paths <- PathsQ
  Keys <- KeysQ
  MaxOps = 5
  TemplateDims = {1, 2}
  OverwriteRule = "documented"
SPECIFICATION Spec
INVARIANT C16_StatsAreBagSum
INVARIANT C16_CountIsBagSize
INVARIANT C17_FileHoldsWhatWasSaved
INVARIANT C17_KeysDistinct
INVARIANT C17_SavedStatsHaveData
PROPERTY C17_RefusedSaveChangesNothing
PROPERTY C16_DimMismatchIsNoChange
PROPERTY C17_OverwriteRule
CHECK_DEADLOCK FALSE
