------------------------------ MODULE ShortenVectors ------------------------------
(***************************************************************************)
(* spec <- real data: the DECODER half of Shorten.tla is run by TLC on the *)
(* first commands of real shorten streams (the sph2pipe reference vectors  *)
(* shipped with the repository), given as bit strings in IN_FILE; the      *)
(* samples it reconstructs are exported and compared by the harness with   *)
(* the reference WAVs.  This binds the specification's reading of the      *)
(* format to streams produced by the original shorten encoder.             *)
(***************************************************************************)
EXTENDS Shorten, Json, IOUtils
Cases == JsonDeserialize(IOEnv.IN_FILE)
\* decode at most `fuel` commands; the output so far is valid even when the stream was cut
DecPrefix(version, b, fuel) ==
  LET f1 == UlongGet(b, 1)
      f2 == UlongGet(b, f1[2])
      f3 == UlongGet(b, f2[2])
      f4 == UlongGet(b, f3[2])
      f5 == UlongGet(b, f4[2])
      f6 == UlongGet(b, f5[2])
      h == [version |-> version, ftype |-> f1[1], nchan |-> f2[1], bs |-> f3[1], maxnlpc |-> f4[1], nmean |-> f5[1]]
      nwrap == Max(3, h.maxnlpc)
      d0 == [pos |-> f6[2], buf |-> [c \in 1..h.nchan |-> [i \in 1..(h.bs + nwrap) |-> 0]],
             offs |-> [c \in 1..h.nchan |-> [i \in 1..Max(1, h.nmean) |-> 0]],
             bs |-> h.bs, shift |-> 0, chan |-> 1, out |-> [c \in 1..h.nchan |-> <<>>], err |-> "", steps |-> 0]
      r == DecLoop(b, h, d0, fuel)
  IN [hdr |-> h, err |-> r.err, out |-> r.out]
Table == [i \in 1..Len(Cases) |-> DecPrefix(Cases[i].version, Cases[i].bits, Cases[i].fuel)]
ASSUME JsonSerialize(IOEnv.OUT_FILE, Table)
ASSUME PrintT(<<"EXPORTED", Len(Table)>>)
Stop == phase = "none"   \* state constraint: nothing of the state machine is explored here
===============================================================================
