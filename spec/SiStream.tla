------------------------------- MODULE SiStream -------------------------------
(***************************************************************************)
(* Short-integration frame computer (compute.py, class                     *)
(* ShortIntegrationFrameComputer): definition part + implementation-shaped *)
(* part, at the level of *which filter output lands in which frame with    *)
(* which window column*.                                                   *)
(*                                                                         *)
(* Configuration: S frame shift, M max support (taps 0..M-1 of the rolled  *)
(* and clamped filter), T translation, D DFT size, style.  V = D - M + 1   *)
(* valid outputs per DFT block.                                            *)
(*                                                                         *)
(* Definition.  y[n] = sum_m g[m] x[n-m] (x zero outside 0..N-1).  Frame k *)
(* is the bag { <<n0 + kS + t, t>> : t in 0..2S-1 } of (output index,      *)
(* window column) pairs, n0 = T (causal) or T - S (centered); there are    *)
(* (N + S div 2) div S frames.                                             *)
(*                                                                         *)
(* Implementation-shaped part: x_buf holds sample tokens, y_buf blocks     *)
(* hold *bags* of <<utterance, n, column>> (a double accumulation shows as *)
(* a count of 2), one action per public call.                              *)
(***************************************************************************)
EXTENDS Integers, Sequences, TLC, FiniteSets, Bags, SiDef

CONSTANTS Configs,   \* set of [style, S, M, T, D]
          MaxN,      \* samples per utterance
          MaxUtt,    \* utterances per history
          Dtypes,    \* chunk dtypes tried, subset of {"f8","f4","f2","i8"}
          KeepRule   \* "code": y_keep as in the code; "canary": keep one output too many per block

Z == -1000          \* a zero the algorithm pads with (before the utterance / after its end)
TokBase == 1000
Max(a, b) == IF a > b THEN a ELSE b
Min(a, b) == IF a < b THEN a ELSE b
CeilDiv(a, b) == (a + b - 1) \div b
IsFloat(d) == d \in {"f8", "f4", "f2"}

VARIABLES cfg, started, skip, xRem, yRem, xbuf, ybuf, ynext, rdt,
          utt, fed, out, ret, err, just, bad
vars == <<cfg, started, skip, xRem, yRem, xbuf, ybuf, ynext, rdt, utt, fed, out, ret, err, just, bad>>

S == cfg.S
M == cfg.M
T == cfg.T
D == cfg.D
V == D - M + 1
NBlocks == CeilDiv(D - M + 2 * S, S)
FrameLength == M + S - 1
N0 == SiN0(cfg)

Idle == just \in {"init", "finalize", "full"}
CurUtt == IF Idle THEN utt + 1 ELSE utt
CurFed == IF Idle THEN 0 ELSE fed
CurOut == IF Idle THEN <<>> ELSE out

\* token of input sample i of utterance u (negative positions are the zeros of x_buf.fill(0))
Tok(u, i) == IF i < 0 THEN Z ELSE u * TokBase + i
EmptyBlock == <<EmptyBag, EmptyBag>>

\* push sequence c onto the end of a length-D buffer, dropping from the front
Push(b, c) == IF Len(c) >= D THEN SubSeq(c, Len(c) - D + 1, Len(c))
              ELSE SubSeq(b, Len(c) + 1, D) \o c

(* ---------------- _fill_y_buf ------------------------------------------- *)
\* st: [ybuf, yRem, ynext, bad, u]; cur: the D tokens transformed; keep: y_keep
Fill(st, cur, keep) ==
  LET boffs == st.yRem \div S
      sbs == (boffs + 1) * S - st.yRem                      \* second_block_start
      BlockOf(q) == IF q < sbs THEN boffs ELSE boffs + 1 + ((q - sbs) \div S)
      ColOf(q) == IF q < sbs THEN (S - sbs) + q ELSE (q - sbs) % S
      Npos(q) == st.ynext + q
      \* output q of the kept tail is computed from the right M inputs (valid convolution)
      WinOK(q) == LET p == D - keep + q IN
                  /\ p - M + 1 >= 0
                  /\ \A m \in 0..(M - 1) : cur[p - m + 1] = Tok(st.u, Npos(q) - m)
      newY == [b \in 1..NBlocks |->
                 LET add == SetToBag({ <<st.u, Npos(q), ColOf(q)>> :
                                       q \in { qq \in 0..(keep - 1) : BlockOf(qq) = b - 1 } })
                 IN << st.ybuf[b][1] (+) add, st.ybuf[b][2] (+) add >>]
      badNow == \/ keep > V \/ keep < 0
                \/ \E q \in 0..(keep - 1) : BlockOf(q) >= NBlocks \/ ~WinOK(q)
  IN [st EXCEPT !.ybuf = newY, !.yRem = st.yRem + keep, !.ynext = st.ynext + keep,
                !.bad = st.bad \/ badNow]

(* ---------------- _compute_frame ---------------------------------------- *)
Shift2(bag) == LET dom == BagToSet(bag) IN
               [p \in { <<q[1], q[2], S + q[3]>> : q \in dom } |-> bag[<<p[1], p[2], p[3] - S>>]]
RECURSIVE Emit(_)
Emit(st) == IF st.yRem >= 2 * S
            THEN LET fr == st.ybuf[1][1] (+) Shift2(st.ybuf[2][2])
                 IN Emit([st EXCEPT !.frames = Append(st.frames, fr),
                                   !.ybuf = [b \in 1..NBlocks |-> IF b < NBlocks THEN st.ybuf[b + 1] ELSE EmptyBlock],
                                   !.yRem = st.yRem - S])
            ELSE st

(* ---------------- the DFT-block loop of compute_chunk ------------------- *)
RECURSIVE DftLoop(_, _, _, _)
DftLoop(st, i, nd, chunk) ==
  IF i >= nd THEN st ELSE
  LET clen == Len(chunk)
      endIdx == Min((i + 1) * V - st.xRem0, clen)
      keep0 == endIdx - i * V + st.xRem0
      keep == IF KeepRule = "canary" THEN keep0 + 1 ELSE keep0
      startIdx == endIdx - D
      ctc == endIdx - st.copied
      st1 == IF startIdx < 0
             THEN [st EXCEPT !.xbuf = Push(st.xbuf, SubSeq(chunk, st.copied + 1, endIdx)), !.copied = endIdx,
                              !.bad = st.bad \/ endIdx < 0 \/ ~(ctc < D)]
             ELSE st
      cur == IF startIdx < 0 THEN st1.xbuf ELSE SubSeq(chunk, startIdx + 1, endIdx)
      st2 == Emit(Fill(st1, cur, keep))
  IN DftLoop(st2, i + 1, nd, chunk)

(* ---------------- compute_chunk (after the dtype checks) ---------------- *)
DoChunk(c0, s0, u) ==
  LET sP == IF s0.started THEN s0
            ELSE LET sk0 == IF cfg.style = "centered" THEN T - S ELSE T IN
                 [s0 EXCEPT !.started = TRUE, !.xbuf = [i \in 1..D |-> Z],
                            !.ybuf = [b \in 1..NBlocks |-> EmptyBlock],
                            !.yRem = 0, !.ynext = N0,
                            !.xRem = IF sk0 < 0 THEN -sk0 ELSE 0,
                            !.skip = IF sk0 < 0 THEN 0 ELSE sk0]
      consumed == Min(sP.skip, Len(c0))
      sS == IF sP.skip = 0 THEN sP
            ELSE [sP EXCEPT !.xbuf = Push(sP.xbuf, SubSeq(c0, 1, consumed)), !.skip = sP.skip - consumed,
                            !.bad = sP.bad \/ sP.xRem # 0]
      chunk == IF sP.skip = 0 THEN c0 ELSE SubSeq(c0, consumed + 1, Len(c0))
      clen == Len(chunk)
      numRaw == sS.xRem + clen
      nd0 == numRaw \div V
      nfr == Max(0, ((numRaw + sS.yRem) \div S) - 1)
      nproc == IF nfr > 0 THEN (nfr + 1) * S ELSE sS.yRem
      nd == IF nproc - sS.yRem > nd0 * V THEN nd0 + 1 ELSE nd0
      stL == DftLoop([xbuf |-> sS.xbuf, ybuf |-> sS.ybuf, yRem |-> sS.yRem, ynext |-> sS.ynext, bad |-> sS.bad,
                      frames |-> <<>>, copied |-> 0, xRem0 |-> sS.xRem, u |-> u], 0, nd, chunk)
      xb == IF clen - stL.copied > 0
            THEN Push(stL.xbuf, SubSeq(chunk, clen - Min(D, clen - stL.copied) + 1, clen))
            ELSE stL.xbuf
  IN [sS EXCEPT !.xbuf = xb, !.ybuf = stL.ybuf, !.yRem = stL.yRem, !.ynext = stL.ynext,
                !.xRem = Max(0, numRaw - nd * V),
                !.bad = stL.bad \/ Len(stL.frames) # nfr, !.frames = stL.frames]

Rec == [started |-> started, skip |-> skip, xRem |-> xRem, yRem |-> yRem, xbuf |-> xbuf, ybuf |-> ybuf,
        ynext |-> ynext, bad |-> FALSE, frames |-> <<>>]

\* finalize on state record s (started) with `n` samples fed: the record after, frames returned
DoFinalize(s, n, u) ==
  LET borrowed == IF cfg.style = "centered" THEN S ELSE 0
      bl == T - s.skip + s.xRem + s.yRem - borrowed
      nf == Max(0, (bl + (S \div 2)) \div S)
      pr == (nf - 1) * S + FrameLength - bl
  IN IF nf >= 1
     THEN IF pr < 0 THEN [s EXCEPT !.bad = TRUE, !.frames = <<>>]
          ELSE LET r == DoChunk([i \in 1..pr |-> Tok(u, n + i - 1)], s, u) IN
               [r EXCEPT !.bad = r.bad \/ Len(r.frames) < nf,
                         !.frames = SubSeq(r.frames, 1, Min(nf, Len(r.frames)))]
     ELSE [s EXCEPT !.frames = <<>>]

(* ---------------- actions ------------------------------------------------ *)
\* _compute_preamble's dtype checks
DtypeRefused(d) == IF started THEN d # rdt ELSE ~IsFloat(d)

Refuse ==
  /\ err' = TRUE
  /\ UNCHANGED <<cfg, started, skip, xRem, yRem, xbuf, ybuf, ynext, rdt, utt, fed, out, ret, just, bad>>

Chunk(c, d) ==
  IF DtypeRefused(d) THEN Refuse ELSE
  /\ LET r == DoChunk([i \in 1..c |-> Tok(CurUtt, CurFed + i - 1)], Rec, CurUtt) IN
     /\ started' = TRUE /\ skip' = r.skip /\ xRem' = r.xRem /\ yRem' = r.yRem
     /\ xbuf' = r.xbuf /\ ybuf' = r.ybuf /\ ynext' = r.ynext /\ bad' = (bad \/ r.bad)
     /\ out' = CurOut \o r.frames /\ ret' = r.frames
  /\ rdt' = d /\ fed' = CurFed + c /\ utt' = CurUtt /\ err' = FALSE /\ just' = "chunk" /\ UNCHANGED cfg

Finalize ==
  /\ IF started
     THEN LET r == DoFinalize(Rec, fed, utt) IN
          /\ skip' = r.skip /\ xRem' = r.xRem /\ yRem' = r.yRem
          /\ xbuf' = r.xbuf /\ ybuf' = r.ybuf /\ ynext' = r.ynext /\ bad' = (bad \/ r.bad)
          /\ out' = out \o r.frames /\ ret' = r.frames
     ELSE /\ UNCHANGED <<skip, xRem, yRem, xbuf, ybuf, ynext, bad>> /\ ret' = <<>> /\ out' = <<>>
  /\ started' = FALSE /\ fed' = CurFed /\ utt' = CurUtt
  /\ err' = FALSE /\ just' = "finalize" /\ UNCHANGED <<cfg, rdt>>

\* compute_full = refusal when started, else compute_chunk then finalize
Full(n, d) ==
  IF started \/ DtypeRefused(d) THEN Refuse ELSE
  /\ LET u == utt + 1
         r1 == DoChunk([i \in 1..n |-> Tok(u, i - 1)], Rec, u)
         r2 == DoFinalize(r1, n, u) IN
     /\ skip' = r2.skip /\ xRem' = r2.xRem /\ yRem' = r2.yRem
     /\ xbuf' = r2.xbuf /\ ybuf' = r2.ybuf /\ ynext' = r2.ynext /\ bad' = (bad \/ r1.bad \/ r2.bad)
     /\ ret' = r1.frames \o r2.frames /\ out' = ret'
  /\ started' = FALSE /\ rdt' = d /\ fed' = n /\ utt' = utt + 1
  /\ err' = FALSE /\ just' = "full" /\ UNCHANGED cfg

Init == /\ cfg \in Configs /\ started = FALSE /\ skip = 0 /\ xRem = 0 /\ yRem = 0
        /\ xbuf = [i \in 1..cfg.D |-> -7]
        /\ ybuf = [b \in 1..CeilDiv(cfg.D - cfg.M + 2 * cfg.S, cfg.S) |-> <<SetToBag({<<-7, -7, -7>>}), SetToBag({<<-7, -7, -7>>})>>]
        /\ ynext = 0 /\ rdt = "f8" /\ utt = 0 /\ fed = 0 /\ out = <<>> /\ ret = <<>>
        /\ err = FALSE /\ just = "init" /\ bad = FALSE

NChunk    == CurUtt <= MaxUtt /\ \E c \in 0..(MaxN - CurFed) : \E d \in Dtypes : Chunk(c, d)
NFinalize == CurUtt <= MaxUtt /\ Finalize
NFull     == (started \/ utt < MaxUtt) /\ \E n \in {0, 1, S, MaxN} : \E d \in Dtypes : Full(n, d)
Next == NChunk \/ NFinalize \/ NFull
Spec == Init /\ [][Next]_vars

(* ---------------- definition and properties ------------------------------ *)
NumFramesSI(N) == SiNumFrames(N, cfg)
Live(n, N) == SiLive(n, N, cfg)
DefFrame(k, N, u) == SetToBag({ <<u, p[1], p[2]>> : p \in SiDefPairs(k, N, cfg) })
LiveOnly(fr, N) == LET keep == { p \in BagToSet(fr) : Live(p[2], N) } IN [p \in keep |-> fr[p]]
FramesAreDef(frs, N, u) == /\ Len(frs) = NumFramesSI(N)
                           /\ \A k \in 1..Len(frs) : LiveOnly(frs[k], N) = DefFrame(k - 1, N, u)

NoAssertFail == ~bad          \* includes C03_ValidConvolution (WinOK) and block indices in range
C03_FrameCount == just \in {"finalize", "full"} => Len(out) = NumFramesSI(fed)
C01_SiStreamEqualsDef == just = "finalize" => FramesAreDef(out, fed, utt)
C03_FullIsDefinition == just = "full" => FramesAreDef(ret, fed, utt)
\* every pair accumulated exactly once and only pairs of the current utterance (C03_EachPairOnce, C04)
C03_EachPairOnce == \A k \in 1..Len(out) : \A p \in BagToSet(out[k]) : out[k][p] = 1 /\ p[1] = utt
C04_StartedExactly == started <=> (just = "chunk")
C04_RefusalIsNoOp ==
  [][err' => UNCHANGED <<cfg, started, skip, xRem, yRem, xbuf, ybuf, ynext, rdt, utt, fed, out, ret, just, bad>>]_vars
C03_DtypeRule == [][(just' = "chunk" /\ ~err' /\ started) => rdt' = rdt]_vars
===============================================================================
