--------------------------------- MODULE FeatDir ---------------------------------
(***************************************************************************)
(* C10: signals-to-torch-feat-dir with --manifest under kills, soft        *)
(* interrupts, restarts and DataLoader workers.                            *)
(*                                                                         *)
(* Utterances are 1..N in map-file order.  files[u] is -2 (absent), -1     *)
(* (partial: a write was cut short) or the seed offset s >= 0 the complete *)
(* file was computed with.  disk is the manifest as it is on disk, buf the *)
(* lines still in the process's user-space buffer.  One action per hook    *)
(* point of the main loop; the environment may kill (buffer lost) or       *)
(* interrupt (buffer flushed at interpreter exit) between any two of them. *)
(*                                                                         *)
(* SeedRule: "mapindex" (the code: position in the map file) | "position"  *)
(* (pre-repair: position in the manifest-filtered list).                   *)
(* FlushRule: "line" (the code: flush after every line) | "exit"           *)
(* (pre-repair: only when the buffer fills or at exit).                    *)
(***************************************************************************)
EXTENDS Integers, Sequences, FiniteSets, TLC
CONSTANTS N, MaxCrash, Workers, SeedRule, FlushRule
Utts == 1..N
Map == [k \in 1..N |-> k]
VARIABLES disk, buf, files, pc, todo, i, crashes, doneThisRun, startManifest, ahead
vars == <<disk, buf, files, pc, todo, i, crashes, doneThisRun, startManifest, ahead>>
Range(s) == {s[k] : k \in 1..Len(s)}

Init == /\ disk = <<>> /\ buf = <<>> /\ files = [u \in Utts |-> (-2)] /\ pc = "idle"
        /\ todo = <<>> /\ i = 1 /\ crashes = 0 /\ doneThisRun = {} /\ startManifest = {} /\ ahead = 0
\* read the manifest, drop listed utterances from the map
Start == /\ pc = "idle"
         /\ todo' = SelectSeq(Map, LAMBDA u : u \notin Range(disk))
         /\ startManifest' = Range(disk)
         /\ i' = 1 /\ pc' = "loop" /\ doneThisRun' = {} /\ ahead' = 0 /\ UNCHANGED <<disk, buf, files, crashes>>
Cur == todo[i]
SeedOf == IF SeedRule = "position" THEN i - 1 ELSE Cur - 1
\* a loader worker finishes another item ahead of the main loop (results are yielded in order)
WorkerCompute == /\ Workers > 0 /\ pc \in {"loop", "saving", "writing", "saved"} /\ ahead < 2 * Workers
                 /\ i + ahead <= Len(todo) /\ ahead' = ahead + 1
                 /\ UNCHANGED <<disk, buf, files, pc, todo, i, crashes, doneThisRun, startManifest>>
\* the main loop took item i from the loader and is about to call torch.save
SaveBegin == /\ pc = "loop" /\ i <= Len(todo) /\ (Workers = 0 \/ ahead >= 1)
             /\ pc' = "saving"
             /\ UNCHANGED <<disk, buf, files, todo, i, crashes, doneThisRun, startManifest, ahead>>
\* torch.save opened the destination (in place, no rename): whatever was there is gone
SaveWrite == /\ pc = "saving" /\ files' = [files EXCEPT ![Cur] = (-1)] /\ pc' = "writing"
             /\ UNCHANGED <<disk, buf, todo, i, crashes, doneThisRun, startManifest, ahead>>
SaveEnd == /\ pc = "writing" /\ files' = [files EXCEPT ![Cur] = SeedOf] /\ pc' = "saved"
           /\ UNCHANGED <<disk, buf, todo, i, crashes, doneThisRun, startManifest, ahead>>
ManifestPrint == /\ pc = "saved"
                 /\ IF FlushRule = "line" THEN disk' = disk \o buf \o <<Cur>> /\ buf' = <<>>
                                          ELSE buf' = Append(buf, Cur) /\ disk' = disk
                 /\ doneThisRun' = doneThisRun \cup {Cur}
                 /\ i' = i + 1 /\ pc' = "loop" /\ ahead' = (IF ahead > 0 THEN ahead - 1 ELSE 0)
                 /\ UNCHANGED <<files, todo, crashes, startManifest>>
\* the C library may flush a full buffer at any time
BufferFlush == /\ buf # <<>> /\ pc \in {"loop", "saving", "writing", "saved"} /\ disk' = disk \o buf /\ buf' = <<>>
               /\ UNCHANGED <<files, pc, todo, i, crashes, doneThisRun, startManifest, ahead>>
Finish == /\ pc = "loop" /\ i > Len(todo) /\ disk' = disk \o buf /\ buf' = <<>> /\ pc' = "done"
          /\ UNCHANGED <<files, todo, i, crashes, doneThisRun, startManifest, ahead>>
HardKill == /\ pc \in {"loop", "saving", "writing", "saved"} /\ crashes < MaxCrash /\ buf' = <<>> /\ pc' = "crashed"
            /\ crashes' = crashes + 1 /\ ahead' = 0 /\ UNCHANGED <<disk, files, todo, i, doneThisRun, startManifest>>
SoftInt == /\ pc \in {"loop", "saving", "saved"} /\ crashes < MaxCrash /\ disk' = disk \o buf /\ buf' = <<>> /\ pc' = "crashed"
           /\ crashes' = crashes + 1 /\ ahead' = 0 /\ UNCHANGED <<files, todo, i, doneThisRun, startManifest>>
Restart == /\ pc = "crashed" /\ pc' = "idle" /\ UNCHANGED <<disk, buf, files, todo, i, crashes, doneThisRun, startManifest, ahead>>
Next == Start \/ WorkerCompute \/ SaveBegin \/ SaveWrite \/ SaveEnd \/ ManifestPrint \/ BufferFlush \/ Finish \/ HardKill \/ SoftInt \/ Restart
Spec == Init /\ [][Next]_vars /\ WF_vars(Start \/ WorkerCompute \/ SaveBegin \/ SaveWrite \/ SaveEnd \/ ManifestPrint \/ Finish \/ Restart)

Complete(u) == files[u] >= 0
C10_ManifestOnlyComplete == \A u \in Range(disk) : Complete(u)
\* at a crash every utterance completed in this run, except possibly the one in flight, is listed
C10_ManifestLagsByAtMostOne == pc = "crashed" => doneThisRun \subseteq Range(disk)
\* when the (last) run finishes, every file is what an uninterrupted run writes
C10_ResumeEqualsUninterrupted == pc = "done" => \A u \in Utts : files[u] = u - 1
C10_NoRecompute == [][SaveBegin => Cur \notin startManifest]_vars
C10_NoDup == \A a, b \in 1..Len(disk) : disk[a] = disk[b] => a = b
\* what a run found listed stays listed, in the same order, whatever happens to the run (kills included): the manifest on
\* disk only ever grows at its end, and a finished file is never taken back
C10_ManifestOnlyGrows == [][/\ Len(disk) <= Len(disk')
                            /\ \A k \in 1..Len(disk) : disk'[k] = disk[k]]_vars
C10_ListedFileStaysComplete == [][\A u \in Range(disk) : files[u] >= 0 => files'[u] = files[u]]_vars
EventuallyDone == <>(pc = "done")
===============================================================================
