--------------------------- MODULE SpectrumWalkTable ---------------------------
(* spec -> code: Recipe(D, start, tlen) for every triple in range (C02, C14).    *)
EXTENDS Integers, Sequences, FiniteSets, Json, IOUtils, TLC, SequencesExt
CONSTANTS MaxD
HalfLen(D) == (D \div 2) + 1
Pair(D, start, j) == LET b == (start + j) % D IN IF b <= D \div 2 THEN b ELSE D - b
FullBin(D, start, j) == (start + j) % D
Row(d, s) == [D |-> d, start |-> s,
              pairs |-> [j \in 1..d |-> Pair(d, s, j - 1)],
              bins |-> [j \in 1..d |-> FullBin(d, s, j - 1)]]
Table == SetToSeq(UNION { { Row(d, s) : s \in 0..(d - 1) } : d \in 2..MaxD })
ASSUME JsonSerialize(IOEnv.OUT_FILE, Table)
ASSUME PrintT(<<"EXPORTED", Len(Table)>>)
===============================================================================
