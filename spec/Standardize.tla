------------------------------- MODULE Standardize -------------------------------
(***************************************************************************)
(* C16 / C17: Standardize (post.py) - accumulation of sufficient           *)
(* statistics and their round trip through files.                          *)
(*                                                                         *)
(* Feature vectors are short sequences of small integers, so every sum is  *)
(* exact in float64: two histories of the same bag of vectors must give    *)
(* bit-identical transforms.  Statistics are [n, sum, sq].                 *)
(*                                                                         *)
(* Objects: instances 1..NInst (None until something was accumulated or    *)
(* loaded); files: path -> Absent | Npy(stats) | Npz(entries) | Raw(stats),*)
(* the kind being fixed by the path's suffix, as in Standardize.save.       *)
(***************************************************************************)
EXTENDS Integers, Sequences, FiniteSets, TLC
CONSTANTS NInst, Vecs,      \* Vecs: set of feature vectors (sequences of integers), possibly of different lengths
          Paths,            \* set of [name, kind], kind in {"npy", "npz", "raw"}
          Keys,             \* explicit npz keys tried
          MaxOps,
          TemplateDims,     \* dimensions of zero-count template files the environment may write
          OverwriteRule     \* "documented": overwrite=False keeps other entries (the code); "inverted": canary

None == [n |-> 0, sum |-> <<>>, sq |-> <<>>]      \* "no statistics"
Absent == [kind |-> "absent"]

VARIABLES inst, bag, base, fs, err, nops, lastSaved, lastOp
vars == <<inst, bag, base, fs, err, nops, lastSaved, lastOp>>

Add(s, v) == IF s = None THEN [n |-> 1, sum |-> v, sq |-> [i \in 1..Len(v) |-> v[i] * v[i]]]
             ELSE [n |-> s.n + 1, sum |-> [i \in 1..Len(v) |-> s.sum[i] + v[i]],
                   sq |-> [i \in 1..Len(v) |-> s.sq[i] + v[i] * v[i]]]
RECURSIVE AddAll(_, _)
AddAll(s, vs) == IF vs = <<>> THEN s ELSE AddAll(Add(s, Head(vs)), Tail(vs))
Dim(s) == Len(s.sum)
\* definition: the statistics of a bag (sequence; order is irrelevant) of vectors
BagStats(b) == AddAll(None, b)

AccVector(i, v) ==
  /\ nops < MaxOps
  /\ IF inst[i] # None /\ Dim(inst[i]) # Len(v)
     THEN err' = "ValueError" /\ UNCHANGED <<inst, bag>>
     ELSE /\ inst' = [inst EXCEPT ![i] = Add(inst[i], v)]
          /\ bag' = [bag EXCEPT ![i] = Append(bag[i], v)] /\ err' = ""
  /\ nops' = nops + 1 /\ lastOp' = [op |-> "acc", ow |-> FALSE] /\ UNCHANGED <<fs, lastSaved, base>>

\* --- which feature vectors a tensor holds: the coefficients run along axis `a` (1-based position), every
\* combination of the other indices is one vector.  flat: row-major contents, sh: shape.
RECURSIVE Prod(_, _)
Prod(sh, from) == IF from > Len(sh) THEN 1 ELSE sh[from] * Prod(sh, from + 1)
Unflat(flat, sh) == [d \in 1..Len(sh) |-> (flat \div Prod(sh, d + 1)) % sh[d]]
RECURSIVE FlatFrom(_, _, _)
FlatFrom(idx, sh, d) == IF d > Len(sh) THEN 0 ELSE idx[d] * Prod(sh, d + 1) + FlatFrom(idx, sh, d + 1)
Others(sh, a) == [d \in 1..(Len(sh) - 1) |-> IF d < a THEN sh[d] ELSE sh[d + 1]]
VecAt(flat, sh, a, k) ==
  LET o == Unflat(k, Others(sh, a))
  IN [j \in 1..sh[a] |-> flat[FlatFrom([d \in 1..Len(sh) |-> IF d < a THEN o[d] ELSE IF d = a THEN j - 1 ELSE o[d - 1]], sh, 1) + 1]]
VectorsOf(flat, sh, a) == [k \in 1..Prod(Others(sh, a), 1) |-> VecAt(flat, sh, a, k - 1)]
\* sanity: a (2, 3) matrix along its last axis is its rows; along its first axis, its columns
ASSUME VectorsOf(<<1, 2, 3, 4, 5, 6>>, <<2, 3>>, 2) = << <<1, 2, 3>>, <<4, 5, 6>> >>
ASSUME VectorsOf(<<1, 2, 3, 4, 5, 6>>, <<2, 3>>, 1) = << <<1, 4>>, <<2, 5>>, <<3, 6>> >>
ASSUME VectorsOf(<<1, 2, 3, 4, 5, 6, 7, 8>>, <<2, 2, 2>>, 2) = << <<1, 3>>, <<2, 4>>, <<5, 7>>, <<6, 8>> >>

\* a tensor of several vectors (all of one dimension) in one accumulate call
AccTensor(i, vs) ==
  /\ nops < MaxOps /\ vs # <<>>
  /\ IF inst[i] # None /\ Dim(inst[i]) # Len(vs[1])
     THEN err' = "ValueError" /\ UNCHANGED <<inst, bag>>
     ELSE /\ inst' = [inst EXCEPT ![i] = AddAll(inst[i], vs)]
          /\ bag' = [bag EXCEPT ![i] = bag[i] \o vs] /\ err' = ""
  /\ nops' = nops + 1 /\ lastOp' = [op |-> "acc", ow |-> FALSE] /\ UNCHANGED <<fs, lastSaved, base>>

FirstUnused(entries) == LET used == {e.key : e \in entries}
                            N == Cardinality(entries)
                        IN CHOOSE k \in 0..N : ("arr_" \o ToString(k)) \notin used /\ \A j \in 0..(k - 1) : ("arr_" \o ToString(j)) \in used
\* "No accumulated statistics" is a count of zero: a fresh instance, or one loaded from an all-zero template
Zero(D) == [n |-> 0, sum |-> [i \in 1..D |-> 0], sq |-> [i \in 1..D |-> 0]]
Save(i, p, key, overwrite) ==
  /\ nops < MaxOps
  /\ IF inst[i].n = 0
     THEN err' = "ValueError" /\ UNCHANGED <<fs, lastSaved>>
     ELSE /\ err' = ""
          /\ lastSaved' = [lastSaved EXCEPT ![p] = inst[i]]
          /\ CASE p.kind = "npy" -> fs' = [fs EXCEPT ![p] = [kind |-> "npy", stats |-> inst[i]]]
               [] p.kind = "raw" -> fs' = [fs EXCEPT ![p] = [kind |-> "raw", stats |-> inst[i]]]
               [] p.kind = "npz" ->
                    LET keeps == IF OverwriteRule = "documented" THEN ~overwrite ELSE overwrite
                        old == IF keeps /\ fs[p].kind = "npz" THEN fs[p].entries ELSE {}
                        k == IF key = "" THEN "arr_" \o ToString(FirstUnused(old)) ELSE key
                    IN fs' = [fs EXCEPT ![p] = [kind |-> "npz",
                                                entries |-> {e \in old : e.key # k} \cup {[key |-> k, stats |-> inst[i]]}]]
  /\ nops' = nops + 1 /\ lastOp' = [op |-> "save", ow |-> overwrite] /\ UNCHANGED <<inst, bag, base>>

\* Standardize(rfilename = p [, key]) into instance slot j (a fresh object)
Load(j, p, key) ==
  /\ nops < MaxOps /\ fs[p].kind # "absent"
  /\ CASE fs[p].kind \in {"npy", "raw"} -> inst' = [inst EXCEPT ![j] = fs[p].stats] /\ err' = ""
       [] fs[p].kind = "npz" ->
            LET k == IF key = "" THEN "arr_0" ELSE key
                hit == {e \in fs[p].entries : e.key = k}
            IN IF hit = {} THEN err' = "KeyError" /\ UNCHANGED inst
               ELSE inst' = [inst EXCEPT ![j] = (CHOOSE e \in hit : TRUE).stats] /\ err' = ""
  /\ bag' = [bag EXCEPT ![j] = IF err' = "" THEN <<>> ELSE bag[j]]
  /\ base' = [base EXCEPT ![j] = IF err' = "" THEN inst'[j] ELSE base[j]]
  /\ nops' = nops + 1 /\ lastOp' = [op |-> "load", ow |-> FALSE] /\ UNCHANGED <<fs, lastSaved>>

\* environment: an all-zero statistics file (count 0) of dimension D is written at p with numpy's own writer
\* (for an archive: a one-entry archive); loading it gives an instance without statistics
Template(p, D, key) ==
  /\ nops < MaxOps
  /\ fs' = [fs EXCEPT ![p] = IF p.kind = "npz"
                              THEN [kind |-> "npz", entries |-> {[key |-> IF key = "" THEN "arr_0" ELSE key, stats |-> Zero(D)]}]
                              ELSE [kind |-> p.kind, stats |-> Zero(D)]]
  /\ lastSaved' = [lastSaved EXCEPT ![p] = None]
  /\ err' = "" /\ nops' = nops + 1 /\ lastOp' = [op |-> "template", ow |-> TRUE] /\ UNCHANGED <<inst, bag, base>>

Init == /\ inst = [i \in 1..NInst |-> None] /\ bag = [i \in 1..NInst |-> <<>>] /\ base = [i \in 1..NInst |-> None]
        /\ fs = [p \in Paths |-> Absent] /\ err = "" /\ nops = 0 /\ lastSaved = [p \in Paths |-> None]
        /\ lastOp = [op |-> "init", ow |-> FALSE]
NAccV == \E i \in 1..NInst, v \in Vecs : AccVector(i, v)
NAccT == \E i \in 1..NInst, v \in Vecs, w \in Vecs : Len(v) = Len(w) /\ AccTensor(i, <<v, w>>)
NSave == \E i \in 1..NInst, p \in Paths, k \in Keys \cup {""}, ow \in BOOLEAN : Save(i, p, k, ow)
NLoad == \E j \in 1..NInst, p \in Paths, k \in Keys \cup {""} : Load(j, p, k)
NTemplate == \E p \in Paths, D \in TemplateDims, k \in Keys \cup {""} : Template(p, D, k)
Next == NAccV \/ NAccT \/ NSave \/ NLoad \/ NTemplate
Spec == Init /\ [][Next]_vars

\* C16: statistics are those of the bag of everything accumulated since the instance was created / loaded,
\* whatever the split into calls (the bag is only reset by Load, which the trace of loaded stats then seeds)
\* (base[i]: what instance i was loaded with, None for a fresh one; a history variable)
C16_StatsAreBagSum == \A i \in 1..NInst : inst[i] = AddAll(base[i], bag[i])
C16_CountIsBagSize == \A i \in 1..NInst : inst[i].n >= Len(bag[i])
C16_DimMismatchIsNoChange == [][err' = "ValueError" => UNCHANGED <<inst, bag, base, fs>>]_vars
\* C17
C17_FileHoldsWhatWasSaved ==
  \A p \in Paths : lastSaved[p] # None =>
     CASE fs[p].kind \in {"npy", "raw"} -> fs[p].stats = lastSaved[p]
       [] fs[p].kind = "npz" -> \E e \in fs[p].entries : e.stats = lastSaved[p]
       [] OTHER -> FALSE
\* overwrite = FALSE never loses an entry of an existing archive; overwrite = TRUE leaves exactly one
C17_OverwriteRule ==
  [][\A p \in Paths : (lastOp'.op = "save" /\ fs[p].kind = "npz" /\ fs'[p] # fs[p]) =>
        IF lastOp'.ow THEN Cardinality(fs'[p].entries) = 1
        ELSE \A e \in fs[p].entries : \E e2 \in fs'[p].entries : e2.key = e.key]_vars
\* a save never stores "no statistics", and a refused save changes nothing
C17_SavedStatsHaveData == \A p \in Paths : lastSaved[p] # None => lastSaved[p].n > 0
C17_RefusedSaveChangesNothing == [][(lastOp'.op = "save" /\ err' = "ValueError") => UNCHANGED <<fs, inst, lastSaved>>]_vars
C17_KeysDistinct == \A p \in Paths : fs[p].kind = "npz" =>
                      \A e1, e2 \in fs[p].entries : e1.key = e2.key => e1 = e2
===============================================================================
