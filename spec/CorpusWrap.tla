--------------------------------- MODULE CorpusWrap ---------------------------------
(***************************************************************************)
(* Beyond the listed properties: pydrobert.speech.corpus.post_process_     *)
(* wrapper - which post-processors are applied to which sub-batch, in      *)
(* which order and along which axis, as documented in WRAPPED_DATA_DOC.    *)
(*                                                                         *)
(* postprocessors: a sequence (meaning sub-batch 0) or a mapping           *)
(* sub-batch -> sequence.  postprocess_axis: an int (every processor, every *)
(* sub-batch), a sequence (used one-to-one, repeating when shorter than    *)
(* the processors) or a mapping sub-batch -> sequence.  With one sub-batch *)
(* per batch only entry 0 is used.  A sub-batch without an entry in a      *)
(* mapping of axes gets no processor applied (zip with an empty cycle).    *)
(***************************************************************************)
EXTENDS Integers, Sequences, FiniteSets, TLC, Json, IOUtils, SequencesExt
Names == {"p", "q", "r"}
Seqs(S, n) == UNION {[1..k -> S] : k \in 0..n}
ProcArgs == {[kind |-> "seq", seq |-> s, map |-> <<>>] : s \in Seqs(Names, 2)} \cup
            {[kind |-> "map", seq |-> <<>>, map |-> <<a, b>>] : a \in Seqs(Names, 2), b \in Seqs(Names, 1)}
\* a mapping is written as a pair: entry for sub-batch 0, entry for sub-batch 1; <<-99>> marks "key absent"
Absent == <<-99>>
AxisArgs == {[kind |-> "int", val |-> a, seq |-> <<>>, map |-> <<>>] : a \in {-1, 0}} \cup
            {[kind |-> "seq", val |-> 0, seq |-> s, map |-> <<>>] : s \in (Seqs({0, 1, -1}, 2) \ {<<>>})} \cup
            {[kind |-> "map", val |-> 0, seq |-> <<>>, map |-> <<a, b>>] : a \in {<<0>>, <<1, -1>>}, b \in {<<2>>, Absent}}
\* processors for sub-batch k (0-based)
Procs(pa, k) == IF pa.kind = "seq" THEN (IF k = 0 THEN pa.seq ELSE <<>>) ELSE pa.map[k + 1]
HasProcKey(pa, k) == IF pa.kind = "seq" THEN k = 0 ELSE TRUE
Axes(pa, aa, k) ==
  IF ~HasProcKey(pa, k) THEN <<>>
  ELSE CASE aa.kind = "int" -> <<aa.val>>
         [] aa.kind = "seq" -> aa.seq
         [] aa.kind = "map" -> IF aa.map[k + 1] = Absent THEN <<>> ELSE aa.map[k + 1]
\* what is applied to sub-batch k: sequence of <<name, axis>>
Applied(pa, aa, k) ==
  LET ps == Procs(pa, k)
      ax == Axes(pa, aa, k)
  IN IF ax = <<>> THEN <<>> ELSE [i \in 1..Len(ps) |-> <<ps[i], ax[((i - 1) % Len(ax)) + 1]>>]
Rows == {[procs |-> pa, axes |-> aa, num_sub |-> n,
          applied |-> [k \in 1..n |-> Applied(pa, aa, k - 1)]] : pa \in ProcArgs, aa \in AxisArgs, n \in {1, 2}}
\* consequences stated in the documentation
OrderKept == \A r \in Rows : \A k \in 1..r.num_sub : \A i \in 1..Len(r.applied[k]) : r.applied[k][i][1] = Procs(r.procs, k - 1)[i]
IntAxisEverywhere == \A r \in Rows : r.axes.kind = "int" => \A k \in 1..r.num_sub : \A i \in 1..Len(r.applied[k]) : r.applied[k][i][2] = r.axes.val
SeqOnlyFirstSubBatch == \A r \in Rows : (r.procs.kind = "seq" /\ r.num_sub = 2) => r.applied[2] = <<>>
ASSUME OrderKept
ASSUME IntAxisEverywhere
ASSUME SeqOnlyFirstSubBatch
ASSUME IOEnv.OUT_FILE = "" \/ JsonSerialize(IOEnv.OUT_FILE, SetToSeq(Rows))
ASSUME PrintT(<<"ROWS", Cardinality(Rows)>>)
===============================================================================
