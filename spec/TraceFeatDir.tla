------------------------------ MODULE TraceFeatDir ------------------------------
(***************************************************************************)
(* Trace validation for C10: one trace is an experiment on the real tool - *)
(* a sequence of runs of signals-to-torch-feat-dir on one directory and    *)
(* manifest, each run possibly ended by an injected crash.  Events come    *)
(* from the guarded hooks (start / save_begin / save_end / manifest_print  *)
(* / finish) in per-process sequence order; after every process exit the   *)
(* harness records what is on disk: the manifest lines and, per utterance, *)
(* absent (-2), partial / unloadable (-1), identical to the uninterrupted  *)
(* run's file (u - 1, i.e. computed with the right seed) or complete with  *)
(* different contents (-3).  Every event must be a FeatDir action and the  *)
(* observations must equal the model's disk and files.                     *)
(***************************************************************************)
EXTENDS FeatDir, Json, IOUtils
Traces == ndJsonDeserialize(IOEnv.TRACE_FILE)
VARIABLES tid, l, nfail
tvars == <<vars, tid, l, nfail>>
Ev == Traces[tid].events[l]
ObsOK == disk' = Ev.disk /\ \A u \in 1..Len(Ev.files) : files'[u] = Ev.files[u]
\* compositions of FeatDir actions that one logged event stands for
\* a new process: after a crash, or again after a run that finished (nothing left to do then)
RestartStart == /\ pc \in {"idle", "crashed", "done"}
                /\ todo' = SelectSeq(Map, LAMBDA u : u \notin Range(disk))
                /\ startManifest' = Range(disk)
                /\ i' = 1 /\ pc' = "loop" /\ doneThisRun' = {} /\ ahead' = 0 /\ UNCHANGED <<disk, buf, files, crashes>>
SaveWriteEnd == /\ pc = "saving" /\ files' = [files EXCEPT ![Cur] = SeedOf] /\ pc' = "saved"
                /\ UNCHANGED <<disk, buf, todo, i, crashes, doneThisRun, startManifest, ahead>>
MidKill == /\ pc = "saving" /\ files' = [files EXCEPT ![Cur] = (-1)] /\ buf' = <<>> /\ pc' = "crashed"
           /\ crashes' = crashes + 1 /\ ahead' = 0 /\ UNCHANGED <<disk, todo, i, doneThisRun, startManifest>>
Act ==
  CASE Ev.e = "start" -> RestartStart /\ todo' = Ev.todo
    [] Ev.e = "save_begin" -> SaveBegin /\ Cur = Ev.u
    [] Ev.e = "save_end" -> SaveWriteEnd /\ Cur = Ev.u
    [] Ev.e = "manifest_print" -> ManifestPrint /\ Cur = Ev.u
    [] Ev.e = "crash" /\ pc = "done" -> UNCHANGED vars /\ ObsOK      \* killed after the loop: nothing left to lose
    [] Ev.e = "crash" /\ Ev.kind = "hard" -> HardKill /\ ObsOK
    [] Ev.e = "crash" /\ Ev.kind = "mid" -> MidKill /\ ObsOK
    [] Ev.e = "crash" /\ Ev.kind = "soft" -> SoftInt /\ ObsOK
    [] Ev.e = "finish" -> Finish /\ ObsOK
    [] OTHER -> FALSE
TStep == /\ tid <= Len(Traces) /\ l <= Len(Traces[tid].events)
         /\ Act /\ l' = l + 1 /\ UNCHANGED <<tid, nfail>>
Fresh == /\ disk' = <<>> /\ buf' = <<>> /\ files' = [u \in Utts |-> (-2)] /\ pc' = "idle"
         /\ todo' = <<>> /\ i' = 1 /\ crashes' = 0 /\ doneThisRun' = {} /\ startManifest' = {} /\ ahead' = 0
TAdvance ==
  /\ tid <= Len(Traces)
  /\ LET exhausted == l > Len(Traces[tid].events)
         failed == ~exhausted /\ ~ENABLED TStep
     IN /\ exhausted \/ failed
        /\ IF failed THEN PrintT(<<"REJECTED", Traces[tid].tid, l, Ev.e>>) ELSE TRUE
        /\ nfail' = nfail + (IF failed THEN 1 ELSE 0)
        /\ tid' = tid + 1 /\ l' = 1
        /\ IF tid < Len(Traces) THEN Fresh
           ELSE /\ PrintT(<<"DONE", Len(Traces), nfail'>>) /\ UNCHANGED vars
TInit == tid = 1 /\ l = 1 /\ nfail = 0 /\ Init
TNext == TStep \/ TAdvance
TSpec == TInit /\ [][TNext]_tvars
===============================================================================
