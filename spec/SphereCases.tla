------------------------------- MODULE SphereCases -------------------------------
(* spec -> code: the definition's answer for every (F, promised, avail) case of      *)
(* SphereRead (frames returned, warning), exported for materialisation as real files *)
EXTENDS Integers, Sequences, FiniteSets, TLC, Json, IOUtils, SequencesExt
BUF == 16384
Mn(a, b) == IF a < b THEN a ELSE b
Cands(f) == LET base == {0, 1, f - 1, f, f + 1} \cup UNION {{k * BUF - f, k * BUF - 1, k * BUF, k * BUF + 1, k * BUF + f} : k \in 1..3}
            IN {x \in base : x >= 0}
Fs == {1, 2, 3, 4, 5, 6, 8, 10, 12, 16384, 16386, 16401}
Rows == UNION { { [F |-> f, promised |-> p, avail |-> a, frames |-> Mn(p, a \div f), warn |-> (a \div f < p)] :
                  p \in {q \in ({c \div f : c \in Cands(f)} \cup {(c \div f) + 1 : c \in Cands(f)}) : q >= 1}, a \in Cands(f) } : f \in Fs }
ASSUME JsonSerialize(IOEnv.OUT_FILE, SetToSeq(Rows))
ASSUME PrintT(<<"ROWS", Cardinality(Rows)>>)
===============================================================================
