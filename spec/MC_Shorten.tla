-------------------------------- MODULE MC_Shorten --------------------------------
EXTENDS Shorten, Json
\* exhaustive tiny instances
V12 == {1, 2}
TinyVals == {-3, 2}
TinyCmds == {0, 1, 2, 3, 5, 6, 8}
TinyCmdsNoBs == {0, 1, 2, 3, 6, 8}   \* (quick tier: block-size changes are explored by Shorten_bs.cfg)
\* two channels with a shift that changes between the channel blocks of one frame
Tiny2Cmds == {0, 1, 6, 8}
\* block sizes that shrink and grow back (up to the size the header announced)
BsCmds == {1, 5}
LpcVals == {-2, 3}
LpcCoefs == {-8, 20}
LpcCmds == {7, 1}
\* the general space, for simulation
SimFtypes == {0, 3, 5, 8}
SimVals == {-128, -77, -9, -2, -1, 0, 1, 3, 17, 100, 127}
SimCoefs == {-20, -7, 0, 5, 31}
AllCmds == {0, 1, 2, 3, 5, 6, 7, 8}
\* spec -> code: one line per final state
ExportInv == Final => PrintT(ToJson([hdr |-> hdr, bits |-> bits, data |-> data, note |-> note]))
===============================================================================
