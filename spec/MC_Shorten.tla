-------------------------------- MODULE MC_Shorten --------------------------------
EXTENDS Shorten, Json
\* exhaustive tiny instances
V12 == {1, 2}
TinyVals == {-3, 2}
TinyCmds == {0, 1, 2, 3, 5, 6, 8}
\* two channels with a shift that changes between the channel blocks of one frame
Tiny2Cmds == {0, 1, 6, 8}
LpcVals == {-2, 3}
LpcCoefs == {-8, 20}
LpcCmds == {7, 1}
\* the general space, for simulation
SimFtypes == {0, 3, 5, 8}
SimVals == {-128, -77, -9, -2, -1, 0, 1, 3, 17, 100, 127}
SimCoefs == {-20, -7, 0, 5, 31}
AllCmds == {0, 1, 2, 3, 5, 6, 7, 8}
\* spec -> code: one line per final state
ExportInv == Final => PrintT(ToJson([hdr |-> hdr, bits |-> bits, data |-> data, note |-> note]))
===============================================================================
