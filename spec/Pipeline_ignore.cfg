CONSTANTS
  Pre <- P2
  Post <- Q2
  HasComputer = TRUE
  EmptySkipsPost = TRUE
  Utts <- U4
  Excluded = {"b"}
  Empty = {"c"}
  PostRule = "ignore"
SPECIFICATION Spec
INVARIANT C09_StagesInOrder
INVARIANT C09_ExcludedNotWritten
INVARIANT C09_EachIncludedUttOnce
PROPERTY Terminates
CHECK_DEADLOCK FALSE
