\* constant evaluation only
