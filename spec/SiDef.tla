--------------------------------- MODULE SiDef ---------------------------------
(***************************************************************************)
(* Definition of the short-integration frames (C03), parametrised by the   *)
(* configuration record c = [style, S, M, T, D].  Output index n refers to *)
(* y[n] = sum_{m=0..M-1} g[m] x[n-m], g the rolled-and-clamped filter.     *)
(***************************************************************************)
EXTENDS Integers
SiN0(c) == IF c.style = "causal" THEN c.T ELSE c.T - c.S
SiNumFrames(N, c) == (N + (c.S \div 2)) \div c.S
\* an output is necessarily zero when its whole input window lies outside the signal
SiLive(n, N, c) == n >= 0 /\ n - c.M + 1 < N
\* frame k (0-based): (output index, window column) pairs
SiDefPairs(k, N, c) == { <<SiN0(c) + k * c.S + t, t>> :
                          t \in { tt \in 0..(2 * c.S - 1) : SiLive(SiN0(c) + k * c.S + tt, N, c) } }
===============================================================================
