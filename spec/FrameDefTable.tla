----------------------------- MODULE FrameDefTable -----------------------------
(* spec -> code: the documented frames (FrameDef) of every case listed in        *)
(* IN_FILE (a JSON array of {L, S, st, N}), written to OUT_FILE for the          *)
(* valuation layer (C02, C14).  Constant evaluation only.                        *)
(* Also checks the lemma behind C02's last sentence (default frame length).      *)
EXTENDS FrameDef, FiniteSets, Json, IOUtils, TLC
Cases == JsonDeserialize(IOEnv.IN_FILE)
Row(c) == [L |-> c.L, S |-> c.S, st |-> c.st, N |-> c.N, nframes |-> NumFrames(c.N, c.L, c.S),
           frames |-> FullFrames(c.N, c.L, c.S, c.st, 0)]
Table == [i \in 1..Len(Cases) |-> Row(Cases[i])]
ASSUME JsonSerialize(IOEnv.OUT_FILE, Table)
ASSUME PrintT(<<"EXPORTED", Len(Table)>>)

(* BinCover: a DFT of at least ceil(2 rate / B) points has a bin strictly inside *)
(* every band (lo, hi) of width B = hi - lo (frequencies on an integer grid).    *)
CeilDiv(a, b) == (a + b - 1) \div b
BinCover == \A rate \in {8, 10, 16, 25} : \A lo \in 0..(rate \div 2) : \A hi \in (lo + 1)..(rate \div 2 + 2) :
              \A d \in CeilDiv(2 * rate, hi - lo)..(CeilDiv(2 * rate, hi - lo) + 3) :
                 \E k \in 0..d : lo * d < k * rate /\ k * rate < hi * d
ASSUME BinCover
===============================================================================
