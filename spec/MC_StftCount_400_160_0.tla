---- MODULE MC_StftCount_400_160_0 ----
EXTENDS StftCount
\* @type: () => Bool;
ConstInit == L = 400 /\ S = 160 /\ Style = 0 /\ MaxChunk = 100000
====
