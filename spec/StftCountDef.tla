------------------------------ MODULE StftCountDef ------------------------------
(* Pure, parametrised count-level operators of the streaming STFT (style: 0 causal, *)
(* 1 centered, 2 kaldi); shared by StftCount (Apalache / TLC) and TraceStftCount.    *)
EXTENDS Integers
PadLeftP(L, S, st) == IF st = 0 THEN 0 ELSE IF st = 2 THEN (L \div 2) - (S \div 2) ELSE ((L + 1) \div 2) - 1
MinLenP(L) == (L \div 2) + 1
FirstLenP(L, S, st) == IF st = 2 THEN ((L + 1) \div 2) + (S \div 2) ELSE (L \div 2) + 1
NumFramesP(n, L, S) == IF n < MinLenP(L) THEN 0 ELSE (n + (S \div 2)) \div S
Max0(x) == IF x > 0 THEN x ELSE 0
\* compute_chunk: frames returned, given the counters before the call and the chunk length
ChunkNf(L, S, st, bufLen, first, c) ==
  LET total0 == c + bufLen
      fl0 == IF st # 0 /\ first THEN FirstLenP(L, S, st) ELSE L
      nf0 == Max0(((total0 - fl0) \div S) + 1)
  IN IF first /\ total0 < MinLenP(L) THEN 0 ELSE nf0
ChunkBufLen(L, S, st, bufLen, first, c) ==
  LET nf == ChunkNf(L, S, st, bufLen, first, c)
      total0 == c + bufLen
      fl0 == IF st # 0 /\ first THEN FirstLenP(L, S, st) ELSE L
      total == IF st # 0 /\ first /\ nf >= 1 THEN total0 - fl0 + L ELSE total0
  IN total - nf * S
\* finalize: frames returned
FinalizeNf(L, S, st, bufLen, first) ==
  LET n1 == bufLen + (S \div 2) - (IF first THEN 0 ELSE PadLeftP(L, S, st))
  IN IF first /\ bufLen < MinLenP(L) THEN 0 ELSE Max0(n1 \div S)
===============================================================================
