------------------------------ MODULE TracePipeline ------------------------------
(***************************************************************************)
(* Trace validation for C09: per tool run, the stage events the guarded    *)
(* hooks emitted for each utterance (grouped per utterance, in emission    *)
(* order) and the list of ids found in the output.  Each utterance's event *)
(* list must be exactly the specified stage sequence for the run's         *)
(* configuration, and the output must hold every included utterance once   *)
(* and no excluded one.                                                    *)
(***************************************************************************)
EXTENDS Integers, Sequences, FiniteSets, TLC, Json, IOUtils
Traces == ndJsonDeserialize(IOEnv.TRACE_FILE)
VARIABLES tid, l, nfail
vars == <<tid, l, nfail>>
T == Traces[tid]
U == T.utts[l]
Expected(t, u) ==
  IF u.excluded THEN <<>> ELSE
  <<"read">> \o [k \in 1..Len(t.pre) |-> "pre:" \o t.pre[k]]
  \o <<IF t.computer THEN "compute" ELSE "raw_column">>
  \o (IF t.empty_skips_post /\ u.empty THEN <<>> ELSE [k \in 1..Len(t.post) |-> "post:" \o t.post[k]])
  \o (IF t.write_event THEN <<"write">> ELSE <<>>)
InOutput(t, id) == \E k \in 1..Len(t.output) : t.output[k] = id
Count(t, id) == Cardinality({k \in 1..Len(t.output) : t.output[k] = id})
Why == IF U.events # Expected(T, U) THEN "C09_StagesInOrder"
       ELSE IF U.excluded /\ InOutput(T, U.id) THEN "C09_ExcludedNotWritten"
       ELSE IF ~U.excluded /\ Count(T, U.id) # 1 THEN "C09_EachIncludedUttOnceUnderOwnId"
       ELSE ""
Step == /\ tid <= Len(Traces) /\ l <= Len(T.utts) /\ Why = ""
        /\ l' = l + 1 /\ UNCHANGED <<tid, nfail>>
Skip == /\ tid <= Len(Traces) /\ l <= Len(T.utts) /\ Why # ""
        /\ PrintT(<<"REJECTED", T.tid, l, Why>>)
        /\ l' = l + 1 /\ nfail' = nfail + 1 /\ UNCHANGED tid
Advance == /\ tid <= Len(Traces) /\ l > Len(T.utts)
           /\ tid' = tid + 1 /\ l' = 1 /\ UNCHANGED nfail
           /\ IF tid = Len(Traces) THEN PrintT(<<"DONE", Len(Traces), nfail>>) ELSE TRUE
TInit == tid = 1 /\ l = 1 /\ nfail = 0
TNext == Step \/ Skip \/ Advance
TSpec == TInit /\ [][TNext]_vars
===============================================================================
