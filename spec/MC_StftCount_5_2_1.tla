---- MODULE MC_StftCount_5_2_1 ----
EXTENDS StftCount
\* @type: () => Bool;
ConstInit == L = 5 /\ S = 2 /\ Style = 1 /\ MaxChunk = 100000
====
