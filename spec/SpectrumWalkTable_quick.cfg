CONSTANTS
  MaxD = 16
