CONSTANTS
  N = 3
  MaxCrash = 2
  Workers = 0
  SeedRule = "mapindex"
  FlushRule = "line"
SPECIFICATION TidySpec
PROPERTY C10_ManifestOnlyGrows
CHECK_DEADLOCK FALSE
