---- MODULE MC_StftCount_201_67_1 ----
EXTENDS StftCount
\* @type: () => Bool;
ConstInit == L = 201 /\ S = 67 /\ Style = 1 /\ MaxChunk = 100000
====
