\* constant evaluation
