CONSTANTS
  Tier = "quick"
  MaxN = 12
