import numpy as np, io, struct, random
class BW:
    def __init__(s): s.bits=[]
    def uvar(s,val,nbin):
        assert val>=0
        hi=val>>nbin
        s.bits += [0]*hi+[1]
        for k in range(nbin-1,-1,-1): s.bits.append((val>>k)&1)
    def var(s,val,nbin):
        u = (val<<1) if val>=0 else (((~val)<<1)|1)
        s.uvar(u,nbin+1)
    def ulong(s,val):
        nbit=max(val.bit_length(),0)
        s.uvar(nbit,2); s.uvar(val,nbit)
    def tobytes(s):
        b=s.bits+[0]*((-len(s.bits))%32)
        out=bytearray()
        for i in range(0,len(b),8):
            v=0
            for k in b[i:i+8]: v=(v<<1)|k
            out.append(v)
        return bytes(out)
def c99div(a,b): return int(float(a)/b)
def encode(samples, nchan, blocksize, version=2, ftype=5, nmean=None, maxnlpc=0, rng=None, cmds=None):
    """samples: (nsamp, nchan) ints. returns bytes of shorten stream. Picks random predictors per block."""
    rng=rng or random.Random(0)
    if nmean is None: nmean = 4 if version>=2 else 0
    w=BW()
    for v in (ftype,nchan,blocksize,maxnlpc,nmean,0): w.ulong(v)
    nwrap=max(3,maxnlpc)
    hist=[[0]*nwrap for _ in range(nchan)]   # previous samples (unshifted domain)
    offs=[[0]*max(1,nmean) for _ in range(nchan)]
    bitshift=0
    lpcqoffset = 32 if version>1 else 0
    pos=0; ns=samples.shape[0]
    while pos<ns:
        bs=min(blocksize,ns-pos)
        if bs!=blocksize:
            w.uvar(5,2); w.ulong(bs); blocksize=bs
        for ch in range(nchan):
            blk=[int(v)>>bitshift for v in samples[pos:pos+bs,ch]]
            if nmean:
                sm=(0 if version<2 else nmean//2)+sum(offs[ch][:nmean])
                coff = c99div(sm,nmean) if version<2 else (c99div(sm,nmean)>>bitshift)
            else: coff=offs[ch][0]
            cmd = rng.choice([0,1,2,3,7,8] if (maxnlpc and bs >= nwrap) else [0,1,2,3,8])
            if cmd==8 and any(blk): cmd=rng.choice([0,1,2,3])
            h=list(hist[ch]); res=[]
            if cmd==8:
                pass
            elif cmd==0:
                res=[v-coff for v in blk]
            elif cmd in (1,2,3):
                buf=h+blk
                for i in range(nwrap,nwrap+bs):
                    if cmd==1: p=buf[i-1]
                    elif cmd==2: p=2*buf[i-1]-buf[i-2]
                    else: p=3*(buf[i-1]-buf[i-2])+buf[i-3]
                    res.append(buf[i]-p)
            else:
                nlpc=rng.randint(0,maxnlpc)
                q=[rng.randint(-20,20) for _ in range(nlpc)]
                buf=[v for v in h]+blk
                # decoder subtracts coffset from history nlpc entries, predicts in offset-free domain, adds back
                b2=list(buf)
                for i in range(nwrap-nlpc,nwrap): b2[i]-=coff
                for i in range(nwrap,nwrap+bs): b2[i]=buf[i]-coff
                for i in range(nwrap,nwrap+bs):
                    sm=lpcqoffset+sum(q[j]*b2[i-j-1] for j in range(nlpc))
                    res.append(b2[i]-(sm>>5))
            w.uvar(cmd,2)
            if cmd!=8:
                mx=max([abs(r) for r in res]+[0])
                resn=min(7,max(0,mx.bit_length()-1)) if rng.random()<.7 else rng.randint(0,7)
                w.uvar(resn,3)
                if cmd==7:
                    w.uvar(nlpc,2)
                    for c in q: w.var(c,5)
                for r in res: w.var(r,resn)
            if nmean>0:
                sm=(0 if version<2 else bs//2)+sum(blk)
                offs[ch]=offs[ch][1:nmean]+[c99div(sm,bs)<<(bitshift if version>=2 else 0)] if nmean>1 else [c99div(sm,bs)<<(bitshift if version>=2 else 0)]
            hist[ch]=(h+blk)[-nwrap:]
        pos+=bs
    w.uvar(4,2)
    return b"ajkg"+bytes([version])+w.tobytes()
def sph(data_bytes, nchan, nsamp, coding='pcm,embedded-shorten-v2.00', nbytes=2, order='01', hdr=1024):
    h = "NIST_1A\n   %d\n" % hdr
    h += "channel_count -i %d\nsample_count -i %d\nsample_rate -i 8000\nsample_n_bytes -i %d\n" % (nchan, nsamp, nbytes)
    h += "sample_byte_format -s2 %s\n" % order
    h += "sample_coding -s%d %s\nend_head\n" % (len(coding), coding)
    h = h.encode(); h += b' '*(hdr-len(h))
    return h+data_bytes
