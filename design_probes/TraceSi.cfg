CONSTANTS MaxN = 1000
Configs = {}
SPECIFICATION TSpec
INVARIANT AllSeen
CHECK_DEADLOCK FALSE
