import json, sys, numpy as np
sys.path.insert(0,'/tmp/exp2')
from stub import StubBank, Ramp
from pydrobert.speech import compute
rs=np.random.RandomState(0)
n=0; mism=[]
for line in open('sim.out'):
    rec=json.loads(json.loads(line))
    cfg=rec['cfg']; S,M,T,D=cfg['S'],cfg['M'],cfg['T'],cfg['D']
    ir=list(rs.randn(cfg['len']))
    bank=StubBank([ir],[cfg['left']])
    L=M+S-1; D0=max(L,2)
    c=compute.SIFrameComputer(bank, frame_shift_ms=S, frame_style=cfg['style'], pad_to_nearest_power_of_two=(D!=D0), use_log=False, use_power=True, window_function=Ramp())
    assert (c._frame_shift,c._max_support,c._translation,c._dft_size)==(S,M,T,D),(cfg,(c._frame_shift,c._max_support,c._translation,c._dft_size))
    x=rs.randn(rec['fed']); p=0; ok=True
    for h in rec['hist']:
        try:
            if h['a']=='chunk':
                o=c.compute_chunk(x[p:p+h['c']]); p+=h['c']
            else:
                o=c.finalize()
            got={'skip':c._skip,'xRem':c._x_rem,'yRem':c._y_rem,'nret':o.shape[0]}
        except Exception as e:
            got={'err':type(e).__name__}
        if got!=h['p']:
            ok=False; mism.append((cfg,rec['hist'],h,got)); break
    n+=1
print('behaviours',n,'mismatching',len(mism))
for m in mism[:5]: print(m)
