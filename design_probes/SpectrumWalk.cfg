CONSTANTS MaxD = 12
ParityOf = "dft_size"
SPECIFICATION Spec
INVARIANT Report
PROPERTY WalkTerminates
CHECK_DEADLOCK FALSE
