---- MODULE Bits ----
EXTENDS Integers, Sequences, TLC, Json
CONSTANTS MaxBlocks, BS, SampleRange
\* ---------- writer
RECURSIVE Zeros(_)
Zeros(n) == IF n = 0 THEN <<>> ELSE <<0>> \o Zeros(n - 1)
RECURSIVE LowBits(_,_)
LowBits(v, n) == IF n = 0 THEN <<>> ELSE LowBits(v \div 2, n - 1) \o <<v % 2>>
Pow2(n) == 2^n
UvarBits(v, nbin) == Zeros(v \div Pow2(nbin)) \o <<1>> \o LowBits(v % Pow2(nbin), nbin)
VarBits(v, nbin) == UvarBits(IF v >= 0 THEN 2*v ELSE 2*(-v - 1) + 1, nbin + 1)
RECURSIVE BitLen(_)
BitLen(v) == IF v = 0 THEN 0 ELSE 1 + BitLen(v \div 2)
UlongBits(v) == UvarBits(BitLen(v), 2) \o UvarBits(v, BitLen(v))
\* ---------- reader (returns <<value, position>>); position is 1-based index of the next bit
RECURSIVE CountZeros(_,_)
CountZeros(bits, pos) == IF pos > Len(bits) THEN -1 ELSE IF bits[pos] = 1 THEN 0
                         ELSE LET r == CountZeros(bits, pos + 1) IN IF r < 0 THEN -1 ELSE r + 1
RECURSIVE ReadBits(_,_,_,_)
ReadBits(bits, pos, n, acc) == IF n = 0 THEN acc ELSE ReadBits(bits, pos + 1, n - 1, 2*acc + bits[pos])
UvarGet(bits, pos, nbin) ==
  LET z == CountZeros(bits, pos) IN
  IF z < 0 \/ pos + z + nbin > Len(bits) THEN <<-1, pos>>      \* ran out of input
  ELSE << ReadBits(bits, pos + z + 1, nbin, z), pos + z + 1 + nbin >>
VarGet(bits, pos, nbin) ==
  LET r == UvarGet(bits, pos, nbin + 1) IN
  IF r[1] < 0 THEN r ELSE << IF r[1] % 2 = 1 THEN -(r[1] \div 2) - 1 ELSE r[1] \div 2, r[2] >>
\* ---------- a tiny codec: blocks of BS samples, DIFF1 predictor, per-block residual width
VARIABLES samples, bits, nblocks, lastS
vars == <<samples, bits, nblocks, lastS>>
Init == samples = <<>> /\ bits = <<>> /\ nblocks = 0 /\ lastS = 0
RECURSIVE EncBlock(_,_,_)
EncBlock(blk, prev, resn) == IF blk = <<>> THEN <<>> ELSE VarBits(Head(blk) - prev, resn) \o EncBlock(Tail(blk), Head(blk), resn)
Block == /\ nblocks < MaxBlocks
         /\ \E blk \in [1..BS -> SampleRange], resn \in 0..3 :
              /\ bits' = bits \o UvarBits(1, 2) \o UvarBits(resn, 3) \o EncBlock(blk, lastS, resn)
              /\ samples' = samples \o blk /\ lastS' = blk[BS]
         /\ nblocks' = nblocks + 1
Next == Block
Spec == Init /\ [][Next]_vars
RECURSIVE DecBlock(_,_,_,_,_)
DecBlock(b, pos, n, prev, resn) == IF n = 0 THEN << <<>>, pos >>
   ELSE LET r == VarGet(b, pos, resn) v == r[1] + prev
            rest == DecBlock(b, r[2], n - 1, v, resn) IN << <<v>> \o rest[1], rest[2] >>
RECURSIVE Decode(_,_,_,_)
Decode(b, pos, prev, acc) == IF pos > Len(b) THEN acc ELSE
   LET c == UvarGet(b, pos, 2) e == UvarGet(b, c[2], 3) d == DecBlock(b, e[2], BS, prev, e[1]) IN
   Decode(b, d[2], d[1][BS], acc \o d[1])
RoundTrip == Decode(bits, 1, 0, <<>>) = samples
UlongOK == \A v \in 0..40 : LET bb == UlongBits(v) n == UvarGet(bb, 1, 2) IN UvarGet(bb, n[2], n[1])[1] = v
SR == {-9,-2,-1,0,1,3,17}
====
