import json, sys, numpy as np
sys.path.insert(0,'/tmp/exp2')
from stub import StubBank, Ramp
from pydrobert.speech import compute
rs=np.random.RandomState(int(sys.argv[1])); ntr=int(sys.argv[2]); corrupt=len(sys.argv)>3
def nextpow2(n):
    p=1
    while p<n: p*=2
    return p
out=open('traces.ndjson','w'); k=0
while k<ntr:
    style=rs.choice(['causal','centered']); left,length=[(0,2),(0,3),(-1,3),(0,5),(-2,5),(-1,4)][rs.randint(6)]; S=int(rs.randint(1,4)); pad=bool(rs.randint(2))
    if style=='causal' and not S < left+length: continue
    bank=StubBank([list(rs.randn(length))],[left])
    c=compute.SIFrameComputer(bank, frame_shift_ms=S, frame_style=style, pad_to_nearest_power_of_two=pad, use_log=False, use_power=True, window_function=Ramp())
    cfg={'style':str(style),'S':c._frame_shift,'M':c._max_support,'T':c._translation,'D':c._dft_size}
    N=int(rs.randint(0,13)); x=rs.randn(N); p=0; ev=[]
    while p<N or rs.rand()<.3:
        cl=int(rs.randint(0,N-p+1)); o=c.compute_chunk(x[p:p+cl]); p+=cl
        ev.append({'a':'chunk','c':cl,'p':{'skip':int(c._skip),'xRem':int(c._x_rem),'yRem':int(c._y_rem),'nret':int(o.shape[0])}})
        if len(ev)>8: break
    if p<N: continue
    o=c.finalize(); ev.append({'a':'finalize','c':0,'p':{'skip':int(c._skip),'xRem':int(c._x_rem),'yRem':int(c._y_rem),'nret':int(o.shape[0])}})
    k+=1
    if corrupt and k==ntr//2: ev[0]['p']['yRem']+=1
    out.write(json.dumps({'tid':k,'cfg':cfg,'events':ev})+'\n')
out.close(); print('wrote',k)
