CONSTANTS MaxBlocks = 12
BS = 4
SampleRange <- SR
SPECIFICATION Spec
INVARIANT RoundTrip
INVARIANT UlongOK
CHECK_DEADLOCK FALSE
