CONSTANTS MaxClasses = 4
Aliases = {"x","y"}
SPECIFICATION Spec
INVARIANT C08_ResolvesToMatchingDescendant
INVARIANT C08_FoundOnlyIfExists
INVARIANT C08_LastRegisteredWins
PROPERTY ResolveTerminates
CHECK_DEADLOCK FALSE
