---- MODULE SpectrumWalk ----
EXTENDS Integers, Sequences, TLC
CONSTANTS MaxD, ParityOf
Max(a,b) == IF a > b THEN a ELSE b
Min(a,b) == IF a < b THEN a ELSE b
VARIABLES D, start, tlen, si, consumed, conj, pairs, done
vars == <<D, start, tlen, si, consumed, conj, pairs, done>>
HalfLen == (D \div 2) + 1
Mod == IF ParityOf = "half_len" THEN HalfLen % 2 ELSE D % 2
\* documented recipe: tap j multiplies full-spectrum bin (start + j) % D; observable = half-spectrum index
Pair(j) == LET b == (start + j) % D IN IF b <= D \div 2 THEN b ELSE D - b
\* python index normalisation for a negative-step slice half[a : b : -1] with a, b possibly negative
Norm(ix) == IF ix < 0 THEN ix + HalfLen ELSE ix
Init == /\ D \in 2..MaxD /\ start \in 0..(D-1) /\ tlen \in 1..D
        /\ si = start /\ consumed = 0 /\ conj = FALSE /\ pairs = <<>> /\ done = FALSE
Segment ==
  /\ ~done /\ consumed < tlen
  /\ IF conj
     THEN LET segLen == Max(0, Min(si + tlen - consumed, HalfLen - 2 + Mod) - si)
              first == -2 + Mod - si            \* python start index (negative => from the end)
              \* elements: half[first], half[first-1], ... segLen of them
              idxs == [k \in 1..segLen |-> Norm(first) - (k - 1)]
          IN /\ pairs' = pairs \o idxs
             /\ consumed' = consumed + segLen
             /\ si' = Max(0, si - (HalfLen - 2 + Mod))
     ELSE LET segLen == Max(0, Min(si + tlen - consumed, HalfLen) - si)
              idxs == [k \in 1..segLen |-> si + k - 1]
          IN /\ pairs' = pairs \o idxs
             /\ consumed' = consumed + segLen
             /\ si' = Max(0, si - HalfLen)
  /\ conj' = ~conj /\ UNCHANGED <<D, start, tlen, done>>
Finish == /\ ~done /\ consumed >= tlen /\ done' = TRUE /\ UNCHANGED <<D, start, tlen, si, consumed, conj, pairs>>
Next == Segment \/ Finish
Spec == Init /\ [][Next]_vars /\ WF_vars(Next)
C02_WalkPairsEqualRecipe == done => pairs = [j \in 1..tlen |-> Pair(j - 1)]
WalkTerminates == <>done
Report == IF done /\ pairs # [j \in 1..tlen |-> Pair(j - 1)] THEN PrintT(<<"MISMATCH", D, start, tlen>>) ELSE TRUE
====
