import sys
# configs inside precondition: (S, support(left,len), pad)
def nextpow2(n):
    p=1
    while p<n: p*=2
    return p
cfgs=[]
for style in ("causal","centered"):
    for (left,length) in [(0,2),(0,3),(-1,3),(0,5),(-2,5),(-1,4)]:
        for S in (1,2,3):
            if style=="centered":
                M=length; T=M//2
            else:
                T=max(-left,0); M=left+length+T
            L=M+S-1
            D0=max(L,2)
            for D in sorted({D0,nextpow2(D0)}):
                right = left+length
                pre = (S < right) if style=="causal" else (S < M - M//2 or True)
                if not pre: continue
                cfgs.append((style,S,M,T,D,left,length))
s="{"+", ".join('[style |-> "%s", S |-> %d, M |-> %d, T |-> %d, D |-> %d, left |-> %d, len |-> %d]'%c for c in cfgs)+"}"
open('MCSi.tla','w').write("---- MODULE MCSi ----\nEXTENDS SiStream\nConfigSet == %s\n====\n"%s)
open('MCSi.cfg','w').write("CONSTANTS MaxN = %s\nConfigs <- ConfigSet\nSPECIFICATION Spec\nVIEW View\n%s\nCHECK_DEADLOCK FALSE\n"%(sys.argv[1], "\n".join("INVARIANT "+i for i in sys.argv[2:])))
print(len(cfgs),'configs')
