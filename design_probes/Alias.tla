---- MODULE Alias ----
EXTENDS Integers, Sequences, FiniteSets, TLC
CONSTANTS MaxClasses, Aliases
Inherit == {"__inherit__"}
\* classes[k] = [parent |-> index (0 for the root's base), own |-> set of aliases or Inherit]
VARIABLES classes, phase, root, query, stack, pushed, result
vars == <<classes, phase, root, query, stack, pushed, result>>
OwnChoices == (SUBSET Aliases) \cup {Inherit}
RECURSIVE AliasesOf(_)
AliasesOf(k) == IF classes[k].own = Inherit
                THEN IF classes[k].parent = 0 THEN {} ELSE AliasesOf(classes[k].parent)
                ELSE classes[k].own
Children(k) == [ j \in 1..Cardinality({c \in 1..Len(classes) : classes[c].parent = k}) |->
                   CHOOSE c \in 1..Len(classes) : /\ classes[c].parent = k
                        /\ Cardinality({d \in 1..Len(classes) : classes[d].parent = k /\ d < c}) = j - 1 ]
RECURSIVE IsDesc(_,_)
IsDesc(k, r) == k = r \/ (classes[k].parent # 0 /\ IsDesc(classes[k].parent, r))
Init == /\ classes = << [parent |-> 0, own |-> {}] >> /\ phase = "register" /\ root = 0 /\ query = "none"
        /\ stack = <<>> /\ pushed = {} /\ result = 0
Register == /\ phase = "register" /\ Len(classes) < MaxClasses
            /\ \E p \in 1..Len(classes), o \in OwnChoices : classes' = Append(classes, [parent |-> p, own |-> o])
            /\ UNCHANGED <<phase, root, query, stack, pushed, result>>
BeginResolve == /\ phase = "register"
                /\ \E r \in 1..Len(classes), a \in Aliases :
                     /\ root' = r /\ query' = a /\ stack' = <<r>> /\ pushed' = {} /\ phase' = "resolve" /\ result' = 0
                /\ UNCHANGED classes
Step == /\ phase = "resolve" /\ stack # <<>>
        /\ LET top == stack[Len(stack)] rest == SubSeq(stack, 1, Len(stack) - 1) IN
           IF top \notin pushed
           THEN /\ stack' = rest \o <<top>> \o Children(top) /\ pushed' = pushed \cup {top}
                /\ UNCHANGED <<phase, result>>
           ELSE IF query \in AliasesOf(top)
                THEN /\ result' = top /\ phase' = "found" /\ stack' = rest /\ UNCHANGED pushed
                ELSE /\ stack' = rest /\ UNCHANGED <<phase, result, pushed>>
        /\ UNCHANGED <<classes, root, query>>
NotFound == /\ phase = "resolve" /\ stack = <<>> /\ phase' = "valueerror"
            /\ UNCHANGED <<classes, root, query, stack, pushed, result>>
Next == Register \/ BeginResolve \/ Step \/ NotFound
Spec == Init /\ [][Next]_vars /\ WF_vars(Step \/ NotFound)
Matching == {k \in 1..Len(classes) : IsDesc(k, root) /\ query \in AliasesOf(k)}
C08_ResolvesToMatchingDescendant == phase = "found" => result \in Matching
C08_UnknownAliasIsValueError == phase = "valueerror" <=> (phase \notin {"register","resolve","found"} /\ Matching = {})
C08_FoundOnlyIfExists == phase = "valueerror" => Matching = {}
C08_LastRegisteredWins == phase = "found" => \A k \in Matching : k <= result
ResolveTerminates == [](phase = "resolve" => <>(phase \in {"found","valueerror"}))
====
