CONSTANTS Ls = {2,3,4,5,6,7,8,9}
MaxExtra = 3
Styles = {"causal","centered","kaldi"}
SPECIFICATION Spec
INVARIANT NoAssertFail
INVARIANT NoJ
INVARIANT C01_StreamEqualsFull
CHECK_DEADLOCK FALSE
