---- MODULE SiStream ----
EXTENDS Integers, Sequences, TLC, FiniteSets, Json
CONSTANTS Configs, MaxN
Z == -1000
Max(a,b) == IF a > b THEN a ELSE b
Min(a,b) == IF a < b THEN a ELSE b
CeilDiv(a,b) == (a + b - 1) \div b
VARIABLES cfg, started, skip, xRem, yRem, xbuf, ybuf, ynext, out, ret, fed, fin, bad, hist
vars == <<cfg, started, skip, xRem, yRem, xbuf, ybuf, ynext, out, ret, fed, fin, bad, hist>>
View == <<cfg, started, skip, xRem, yRem, xbuf, ybuf, ynext, out, ret, fed, fin, bad>>
S == cfg.S
M == cfg.M
T == cfg.T
D == cfg.D
V == D - M + 1
NBlocks == CeilDiv(D - M + 2*S, S)
FrameLength == M + S - 1
N0 == IF cfg.style = "causal" THEN T ELSE T - S
Tok(i) == IF i < 0 THEN Z ELSE i
EmptyBlock == <<{}, {}>>
\* push sequence c onto the end of buffer b (length D), dropping from the front
Push(b, c) == IF Len(c) >= D THEN SubSeq(c, Len(c) - D + 1, Len(c))
              ELSE SubSeq(b, Len(c) + 1, D) \o c
\* ---- fill_y_buf: st has ybuf,yRem,ynext,bad ; cur = D tokens ; keep = y_keep
Fill(st, cur, keep) ==
  LET boffs == st.yRem \div S
      sbs == (boffs + 1) * S - st.yRem
      \* for output q (0-based) compute block index and window column
      BlockOf(q) == IF q < sbs THEN boffs ELSE boffs + 1 + ((q - sbs) \div S)
      ColOf(q) == IF q < sbs THEN (S - sbs) + q ELSE (q - sbs) % S
      Npos(q) == st.ynext + q
      WinOK(q) == LET p == D - keep + q IN   \* 0-based position in cur
                  /\ p - M + 1 >= 0
                  /\ \A m \in 0..(M-1) : cur[p - m + 1] = Tok(Npos(q) - m)
      newY == [b \in 1..NBlocks |->
                 LET add == { <<Npos(q), ColOf(q)>> : q \in { qq \in 0..(keep-1) : BlockOf(qq) = b - 1 } }
                 IN << st.ybuf[b][1] \cup add, st.ybuf[b][2] \cup add >>]
      badNow == \/ keep > V \/ keep < 0
                \/ \E q \in 0..(keep-1) : BlockOf(q) >= NBlocks \/ ~WinOK(q)
  IN [st EXCEPT !.ybuf = newY, !.yRem = st.yRem + keep, !.ynext = st.ynext + keep, !.bad = st.bad \/ badNow]
RECURSIVE Emit(_)
Emit(st) == IF st.yRem >= 2*S
            THEN LET fr == { <<p[1], p[2]>> : p \in st.ybuf[1][1] } \cup { <<p[1], S + p[2]>> : p \in st.ybuf[2][2] }
                 IN Emit([st EXCEPT !.frames = Append(st.frames, fr),
                                   !.ybuf = [b \in 1..NBlocks |-> IF b < NBlocks THEN st.ybuf[b+1] ELSE EmptyBlock],
                                   !.yRem = st.yRem - S])
            ELSE st
RECURSIVE DftLoop(_,_,_,_)
DftLoop(st, i, nd, chunk) ==
  IF i >= nd THEN st ELSE
  LET clen == Len(chunk)
      endIdx == Min((i+1)*V - st.xRem0, clen)
      keep == endIdx - i*V + st.xRem0
      startIdx == endIdx - D
      ctc == endIdx - st.copied
      st1 == IF startIdx < 0
             THEN [st EXCEPT !.xbuf = Push(st.xbuf, SubSeq(chunk, st.copied + 1, endIdx)), !.copied = endIdx,
                              !.bad = st.bad \/ endIdx < 0 \/ ~(ctc < D)]
             ELSE st
      cur == IF startIdx < 0 THEN st1.xbuf ELSE SubSeq(chunk, startIdx + 1, endIdx)
      st2 == Emit(Fill(st1, cur, keep))
  IN DftLoop(st2, i + 1, nd, chunk)
\* whole compute_chunk on token sequence c; returns record
DoChunk(c0, s0) ==
  LET \* preamble
      sP == IF s0.started THEN s0
            ELSE LET sk0 == IF cfg.style = "centered" THEN T - S ELSE T IN
                 [s0 EXCEPT !.started = TRUE, !.xbuf = [i \in 1..D |-> Z],
                            !.ybuf = [b \in 1..NBlocks |-> EmptyBlock],
                            !.yRem = 0, !.ynext = N0,
                            !.xRem = IF sk0 < 0 THEN -sk0 ELSE 0,
                            !.skip = IF sk0 < 0 THEN 0 ELSE sk0]
      consumed == Min(sP.skip, Len(c0))
      sS == IF sP.skip = 0 THEN sP
            ELSE [sP EXCEPT !.xbuf = Push(sP.xbuf, SubSeq(c0, 1, consumed)), !.skip = sP.skip - consumed,
                            !.bad = sP.bad \/ sP.xRem # 0]
      chunk == IF sP.skip = 0 THEN c0 ELSE SubSeq(c0, consumed + 1, Len(c0))
      clen == Len(chunk)
      numRaw == sS.xRem + clen
      nd0 == numRaw \div V
      nfr == Max(0, ((numRaw + sS.yRem) \div S) - 1)
      nproc == IF nfr > 0 THEN (nfr + 1) * S ELSE sS.yRem
      nd == IF nproc - sS.yRem > nd0 * V THEN nd0 + 1 ELSE nd0
      stL == DftLoop([xbuf |-> sS.xbuf, ybuf |-> sS.ybuf, yRem |-> sS.yRem, ynext |-> sS.ynext, bad |-> sS.bad,
                      frames |-> <<>>, copied |-> 0, xRem0 |-> sS.xRem], 0, nd, chunk)
      xb == IF clen - stL.copied > 0
            THEN Push(stL.xbuf, SubSeq(chunk, clen - Min(D, clen - stL.copied) + 1, clen))
            ELSE stL.xbuf
  IN [sS EXCEPT !.xbuf = xb, !.ybuf = stL.ybuf, !.yRem = stL.yRem, !.ynext = stL.ynext,
                !.xRem = Max(0, numRaw - nd * V),
                !.bad = stL.bad \/ Len(stL.frames) # nfr, !.frames = stL.frames]
Rec == [started |-> started, skip |-> skip, xRem |-> xRem, yRem |-> yRem, xbuf |-> xbuf, ybuf |-> ybuf,
        ynext |-> ynext, bad |-> bad, frames |-> <<>>]
Proj(r) == [skip |-> r.skip, xRem |-> r.xRem, yRem |-> r.yRem, nret |-> Len(r.frames)]
Chunk(c) == /\ ~fin /\ fed + c <= MaxN
            /\ LET r == DoChunk([i \in 1..c |-> fed + i - 1], Rec) IN
               /\ started' = r.started /\ skip' = r.skip /\ xRem' = r.xRem /\ yRem' = r.yRem
               /\ xbuf' = r.xbuf /\ ybuf' = r.ybuf /\ ynext' = r.ynext /\ bad' = r.bad
               /\ out' = out \o r.frames /\ ret' = r.frames
               /\ hist' = Append(hist, [a |-> "chunk", c |-> c, p |-> Proj(r)])
            /\ fed' = fed + c /\ UNCHANGED <<cfg, fin>>
Finalize == /\ ~fin
            /\ IF started
               THEN LET borrowed == IF cfg.style = "centered" THEN S ELSE 0
                        bl == T - skip + xRem + yRem - borrowed
                        nf == Max(0, (bl + (S \div 2)) \div S)
                        pr == (nf - 1) * S + FrameLength - bl
                    IN IF nf >= 1
                       THEN IF pr < 0
                            THEN /\ bad' = TRUE /\ UNCHANGED <<skip, xRem, yRem, xbuf, ybuf, ynext, out>> /\ ret' = <<>>
                            ELSE LET r == DoChunk([i \in 1..pr |-> fed + i - 1], Rec)
                                     fr == SubSeq(r.frames, 1, Min(nf, Len(r.frames))) IN
                                 /\ skip' = r.skip /\ xRem' = r.xRem /\ yRem' = r.yRem
                                 /\ xbuf' = r.xbuf /\ ybuf' = r.ybuf /\ ynext' = r.ynext
                                 /\ bad' = (r.bad \/ Len(r.frames) < nf)
                                 /\ out' = out \o fr /\ ret' = fr
                       ELSE /\ UNCHANGED <<skip, xRem, yRem, xbuf, ybuf, ynext, out, bad>> /\ ret' = <<>>
               ELSE /\ UNCHANGED <<skip, xRem, yRem, xbuf, ybuf, ynext, out, bad>> /\ ret' = <<>>
            /\ started' = FALSE /\ fin' = TRUE /\ UNCHANGED <<cfg, fed>>
            /\ hist' = Append(hist, [a |-> "finalize", c |-> 0, p |-> [skip |-> skip', xRem |-> xRem', yRem |-> yRem', nret |-> Len(ret')]])
Init == /\ cfg \in Configs /\ started = FALSE /\ skip = 0 /\ xRem = 0 /\ yRem = 0
        /\ xbuf = [i \in 1..cfg.D |-> -7] /\ ybuf = [b \in 1..CeilDiv(cfg.D - cfg.M + 2*cfg.S, cfg.S) |-> <<{<<-7,-7>>},{<<-7,-7>>}>>]
        /\ ynext = 0 /\ out = <<>> /\ ret = <<>> /\ fed = 0 /\ fin = FALSE /\ bad = FALSE /\ hist = <<>>
Next == (\E c \in 0..MaxN : Chunk(c)) \/ Finalize
Spec == Init /\ [][Next]_vars
NumFramesSI(N) == (N + (S \div 2)) \div S
\* an output is necessarily zero when its whole input window lies outside the signal
Live(n, N) == n >= 0 /\ n - M + 1 < N
DefFrame(k, N) == { <<N0 + k*S + t, t>> : t \in { tt \in 0..(2*S-1) : Live(N0 + k*S + tt, N) } }
LiveOnly(fr, N) == { p \in fr : Live(p[1], N) }
NoBad == ~bad
FrameCount == fin => Len(out) = NumFramesSI(fed)
FramesDef == fin => /\ Len(out) = NumFramesSI(fed)
                    /\ \A k \in 1..Len(out) : LiveOnly(out[k], fed) = DefFrame(k-1, fed)

Dump == IF fin THEN PrintT(ToJson([cfg |-> cfg, fed |-> fed, hist |-> hist, nout |-> Len(out), bad |-> bad])) ELSE TRUE
====
