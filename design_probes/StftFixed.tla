---- MODULE StftFixed ----
EXTENDS Integers, Sequences, TLC, FiniteSets
CONSTANTS Ls, MaxExtra, Styles
J == -1
Max(a,b) == IF a > b THEN a ELSE b
Min(a,b) == IF a < b THEN a ELSE b
\* ---------- definition
Refl(i, N) == LET m == i % (2*N) IN IF m < N THEN m ELSE 2*N - 1 - m
PadLeft(L,S,st) == CASE st = "causal" -> 0 [] st = "kaldi" -> (L \div 2) - (S \div 2) [] OTHER -> ((L+1) \div 2) - 1
NumFrames(N,L,S) == IF N < (L \div 2) + 1 THEN 0 ELSE (N + (S \div 2)) \div S
FullFrames(N,L,S,st) == [k \in 1..NumFrames(N,L,S) |-> [j \in 1..L |-> Refl((k-1)*S - PadLeft(L,S,st) + j - 1, N)]]
\* ---------- python helpers (0-based slices over 1-based TLA sequences)
Clamp(i, n) == IF i < 0 THEN Max(0, n + i) ELSE Min(i, n)
PySlice(s, a, b) == LET n == Len(s) aa == Clamp(a, n) bb == Clamp(b, n) IN
                    IF bb <= aa THEN <<>> ELSE SubSeq(s, aa+1, bb)
PyFrom(s, a) == PySlice(s, a, Len(s))
PyTo(s, b) == PySlice(s, 0, b)
\* numpy symmetric pad of sequence s (len>=1) with l on the left and r on the right
PadSym(s, l, r) == [i \in 1..(l + Len(s) + r) |-> s[Refl(i - 1 - l, Len(s)) + 1]]
\* assign t into s starting at 0-based position a
Assign(s, a, t) == [i \in 1..Len(s) |-> IF i - 1 >= a /\ i - 1 < a + Len(t) THEN t[i - a] ELSE s[i]]

VARIABLES L, S, st, buf, bufLen, first, started, fed, out, fin, bad
vars == <<L, S, st, buf, bufLen, first, started, fed, out, fin, bad>>

FirstLen == IF st = "kaldi" THEN ((L+1) \div 2) + (S \div 2) ELSE (L \div 2) + 1

\* loop over frames; state record r: buf, bufLen, chunk, fl, ncf (noncausal_first), frames, first, totalLen
RECURSIVE Loop(_,_,_)
Loop(r, idx, nf) ==
  IF idx >= nf THEN r ELSE
  LET fsi == idx * S
      frame0 == IF fsi < r.bufLen
                THEN PyFrom(r.buf, -(r.bufLen - fsi)) \o PyTo(r.chunk, r.fl - r.bufLen + fsi)
                ELSE PySlice(r.chunk, fsi - r.bufLen, fsi - r.bufLen + r.fl)
  IN IF r.ncf
     THEN LET nbuf == PadSym(frame0, PadLeft(L,S,st), 0)
          IN Loop([r EXCEPT !.chunk = PyFrom(r.chunk, r.fl - r.bufLen), !.fl = L, !.buf = nbuf,
                            !.totalLen = (Len(r.chunk) - (r.fl - r.bufLen)) + L, !.bufLen = L, !.ncf = FALSE,
                            !.frames = Append(r.frames, nbuf), !.first = FALSE,
                            !.bad = r.bad \/ Len(nbuf) # L], idx + 1, nf)
     ELSE Loop([r EXCEPT !.frames = Append(r.frames, frame0), !.first = FALSE, !.bad = r.bad \/ Len(frame0) # L], idx + 1, nf)

ChunkResult(chunk) ==
  LET ncf == (st # "causal") /\ first
      fl0 == IF ncf THEN FirstLen ELSE L
      total0 == Len(chunk) + bufLen
      nf == IF first /\ total0 < (L \div 2) + 1 THEN 0 ELSE Max(0, ((total0 - fl0) \div S) + 1)
      r == Loop([buf |-> buf, bufLen |-> bufLen, chunk |-> chunk, fl |-> fl0, ncf |-> ncf, frames |-> <<>>,
                 first |-> first, totalLen |-> total0, bad |-> FALSE], 0, nf)
      rem == r.totalLen - nf * S
      throw == r.totalLen - rem
      ring == r.bufLen - throw
      valid == IF r.first THEN r.bufLen ELSE L
      cat == PyFrom(r.buf, L - valid) \o r.chunk
      keep == IF Len(cat) > L THEN PyFrom(cat, Len(cat) - L) ELSE cat
      nb == Assign(r.buf, L - Len(keep), keep)
      bad2 == r.bad \/ ~(rem < L)
  IN [buf |-> nb, bufLen |-> rem, first |-> r.first, frames |-> r.frames, bad |-> bad2]

Tok(i) == i   \* token = sample index of current utterance
Chunk(c) == /\ ~fin
            /\ LET res == ChunkResult([i \in 1..c |-> Tok(fed + i - 1)]) IN
               /\ buf' = res.buf /\ bufLen' = res.bufLen /\ first' = res.first
               /\ out' = out \o res.frames /\ bad' = (bad \/ res.bad)
            /\ fed' = fed + c /\ started' = TRUE /\ UNCHANGED <<L,S,st,fin>>

FinalizeFrames ==
  LET pl0 == PadLeft(L,S,st)
      n0 == bufLen + (S \div 2)
      n1 == IF first THEN n0 ELSE n0 - pl0
      pl == IF first THEN pl0 ELSE 0
      nf == n1 \div S
  IN IF nf >= 1 /\ ~(first /\ bufLen < (L \div 2) + 1)
     THEN LET pr == (nf - 1) * S + L - bufLen - pl
              src == IF first THEN PyFrom(buf, -bufLen) ELSE buf
              off == IF first THEN 0 ELSE L - bufLen
              fr == PadSym(src, pl, pr)
          IN [k \in 1..nf |-> PySlice(fr, off + (k-1)*S, off + (k-1)*S + L)]
     ELSE <<>>
Finalize == /\ ~fin /\ out' = out \o FinalizeFrames /\ bufLen' = 0 /\ started' = FALSE /\ first' = TRUE
            /\ fin' = TRUE /\ UNCHANGED <<L,S,st,buf,fed,bad>>

Init == /\ L \in Ls /\ S \in 1..L /\ st \in Styles
        /\ buf = [i \in 1..L |-> J] /\ bufLen = 0 /\ first = TRUE /\ started = FALSE
        /\ fed = 0 /\ out = <<>> /\ fin = FALSE /\ bad = FALSE
MaxN == 2*L + S + MaxExtra
Next == (\E c \in 0..(MaxN - fed) : Chunk(c)) \/ Finalize
Spec == Init /\ [][Next]_vars
NoAssertFail == ~bad
C01_CountEq == fin => Len(out) = NumFrames(fed, L, S)
C01_StreamEqualsFull == fin => out = FullFrames(fed, L, S, st)
C01_ExceptShort == (fin /\ fed >= (L \div 2) + 1) => out = FullFrames(fed, L, S, st)
NoJ == \A k \in 1..Len(out) : \A j \in 1..Len(out[k]) : out[k][j] # J
Report == IF fin /\ out # FullFrames(fed, L, S, st) THEN PrintT(<<"MISMATCH", L, S, st, fed, Len(out), NumFrames(fed,L,S)>>) ELSE TRUE
====
