import numpy as np
from pydrobert.speech import compute, filters
class StubBank(filters.LinearFilterBank):
    aliases=set()
    def __init__(self, irs, lefts, rate=1000, real=True, zero_phase=False):
        self.irs=irs; self.lefts=lefts; self.rate=rate; self.real=real; self.zp=zero_phase
    is_real=property(lambda s:s.real); is_analytic=property(lambda s:False); is_zero_phase=property(lambda s:s.zp)
    num_filts=property(lambda s:len(s.irs)); sampling_rate=property(lambda s:s.rate)
    supports_hz=property(lambda s:tuple((0.,s.rate) for _ in s.irs))
    supports=property(lambda s:tuple((l,l+len(ir)) for l,ir in zip(s.lefts,s.irs)))
    def get_impulse_response(self,i,width):
        res=np.zeros(width, dtype=np.float64 if self.real else np.complex128)
        for k,v in enumerate(self.irs[i]):
            res[(self.lefts[i]+k)%width]+=v
        return res
    def get_frequency_response(self,i,width,half=False):
        f=np.fft.fft(self.get_impulse_response(i,width))
        return f[:width//2+1] if half else f
    def get_truncated_response(self,i,width):
        return 0,self.get_frequency_response(i,width)
class Ones(filters.WindowFunction):
    aliases=set()
    def get_impulse_response(self,width): return np.ones(width)
class Ramp(filters.WindowFunction):
    aliases=set()
    def get_impulse_response(self,width): return np.arange(1,width+1,dtype=float)
def compositions(n):
    if n==0:
        yield []
        return
    for first in range(1,n+1):
        for rest in compositions(n-first):
            yield [first]+rest
