---- MODULE FeatDir ----
EXTENDS Integers, Sequences, FiniteSets, TLC
CONSTANTS N, MaxCrash, SeedRule, FlushRule
Utts == 1..N
Map == [i \in 1..N |-> i]
VARIABLES disk, buf, files, pc, todo, i, crashes, doneThisRun, startManifest
vars == <<disk, buf, files, pc, todo, i, crashes, doneThisRun, startManifest>>
Range(s) == {s[k] : k \in 1..Len(s)}
SelectSeq2(s, Test(_)) == SelectSeq(s, Test)
Init == /\ disk = <<>> /\ buf = <<>> /\ files = [u \in Utts |-> (-2)] /\ pc = "idle"
        /\ todo = <<>> /\ i = 1 /\ crashes = 0 /\ doneThisRun = {} /\ startManifest = {}
Start == /\ pc = "idle"
         /\ todo' = SelectSeq(Map, LAMBDA u : u \notin Range(disk))
         /\ startManifest' = Range(disk)
         /\ i' = 1 /\ pc' = "loop" /\ doneThisRun' = {} /\ UNCHANGED <<disk, buf, files, crashes>>
Cur == todo[i]
SeedOf == IF SeedRule = "position" THEN i - 1 ELSE Cur - 1
SaveBegin == /\ pc = "loop" /\ i <= Len(todo) /\ files' = [files EXCEPT ![Cur] = (-1)] /\ pc' = "saving"
             /\ UNCHANGED <<disk, buf, todo, i, crashes, doneThisRun, startManifest>>
SaveEnd == /\ pc = "saving" /\ files' = [files EXCEPT ![Cur] = SeedOf] /\ pc' = "saved"
           /\ UNCHANGED <<disk, buf, todo, i, crashes, doneThisRun, startManifest>>
ManifestPrint == /\ pc = "saved"
                 /\ IF FlushRule = "line" THEN disk' = disk \o buf \o <<Cur>> /\ buf' = <<>>
                                          ELSE buf' = Append(buf, Cur) /\ disk' = disk
                 /\ doneThisRun' = doneThisRun \cup {Cur}
                 /\ i' = i + 1 /\ pc' = "loop" /\ UNCHANGED <<files, todo, crashes, startManifest>>
BufferFlush == /\ buf # <<>> /\ pc \in {"loop","saving","saved"} /\ disk' = disk \o buf /\ buf' = <<>>
               /\ UNCHANGED <<files, pc, todo, i, crashes, doneThisRun, startManifest>>
Finish == /\ pc = "loop" /\ i > Len(todo) /\ disk' = disk \o buf /\ buf' = <<>> /\ pc' = "done"
          /\ UNCHANGED <<files, todo, i, crashes, doneThisRun, startManifest>>
HardKill == /\ pc \in {"loop","saving","saved"} /\ crashes < MaxCrash /\ buf' = <<>> /\ pc' = "crashed"
            /\ crashes' = crashes + 1 /\ UNCHANGED <<disk, files, todo, i, doneThisRun, startManifest>>
SoftInt == /\ pc \in {"loop","saving","saved"} /\ crashes < MaxCrash /\ disk' = disk \o buf /\ buf' = <<>> /\ pc' = "crashed"
           /\ crashes' = crashes + 1 /\ UNCHANGED <<files, todo, i, doneThisRun, startManifest>>
Restart == /\ pc = "crashed" /\ pc' = "idle" /\ UNCHANGED <<disk, buf, files, todo, i, crashes, doneThisRun, startManifest>>
Next == Start \/ SaveBegin \/ SaveEnd \/ ManifestPrint \/ BufferFlush \/ Finish \/ HardKill \/ SoftInt \/ Restart
Spec == Init /\ [][Next]_vars /\ WF_vars(Start \/ SaveBegin \/ SaveEnd \/ ManifestPrint \/ Finish \/ Restart)
Complete(u) == files[u] >= 0
C10_ManifestOnlyComplete == \A u \in Range(disk) : Complete(u)
C10_ManifestLagsByAtMostOne == pc = "crashed" => doneThisRun \subseteq Range(disk)
C10_ResumeEqualsUninterrupted == pc = "done" => \A u \in Utts : files[u] = u - 1
C10_NoRecompute == [][SaveBegin => Cur \notin startManifest]_vars
C10_NoDup == \A a, b \in 1..Len(disk) : disk[a] = disk[b] => a = b
EventuallyDone == <>(pc = "done")
====
