---- MODULE StftCount ----
EXTENDS Integers
\* causal style, count level, fixed L and S, unbounded fed / chunk sizes
L == 5
S == 2
VARIABLES
  \* @type: Int;
  bufLen,
  \* @type: Bool;
  first,
  \* @type: Int;
  fed,
  \* @type: Int;
  emitted,
  \* @type: Bool;
  fin
Max(a,b) == IF a > b THEN a ELSE b
Init == bufLen = 0 /\ first = TRUE /\ fed = 0 /\ emitted = 0 /\ fin = FALSE
Chunk == \E c \in Nat :
           /\ ~fin
           /\ LET total == c + bufLen
                  nf == Max(0, ((total - L) \div S) + 1)
              IN /\ bufLen' = total - nf * S
                 /\ emitted' = emitted + nf
                 /\ first' = (first /\ nf = 0)
           /\ fed' = fed + c /\ fin' = FALSE
Finalize == /\ ~fin /\ fin' = TRUE
            /\ emitted' = emitted + ((bufLen + (S \div 2)) \div S)
            /\ bufLen' = 0 /\ first' = TRUE /\ fed' = fed
Next == Chunk \/ Finalize
IndInv == /\ bufLen >= 0 /\ fed >= 0 /\ emitted >= 0
          /\ (~fin => (bufLen < L /\ emitted * S + bufLen = fed /\ (first <=> emitted = 0)))
          /\ (fin => emitted = (fed + (S \div 2)) \div S)
IndInit == bufLen \in Int /\ first \in BOOLEAN /\ fed \in Int /\ emitted \in Int /\ fin \in BOOLEAN /\ IndInv
====
