CONSTANTS N = 3
MaxCrash = 2
SeedRule = "mapindex"
FlushRule = "line"
SPECIFICATION Spec
CHECK_DEADLOCK FALSE
INVARIANT C10_ManifestOnlyComplete
INVARIANT C10_ManifestLagsByAtMostOne
INVARIANT C10_ResumeEqualsUninterrupted
INVARIANT C10_NoDup
PROPERTY C10_NoRecompute
PROPERTY EventuallyDone
