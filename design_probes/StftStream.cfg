CONSTANTS Ls = {2,3,4,5,6,7,8}
MaxExtra = 3
Styles = {"causal","centered","kaldi"}
SPECIFICATION Spec
INVARIANT NoAssertFail
INVARIANT NoJ
INVARIANT Report
CHECK_DEADLOCK FALSE
