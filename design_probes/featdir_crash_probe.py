import os, sys, time, signal, shutil, numpy as np
import torch
from pydrobert.speech import command_line as cl
def child(args, kill_at, kind):
    real_save=torch.save; n=[0]
    def save(obj, path, *a, **k):
        if n[0]==kill_at:
            if kind=='hard': os.kill(os.getpid(), signal.SIGKILL)
            else: raise KeyboardInterrupt
        n[0]+=1
        return real_save(obj,path,*a,**k)
    torch.save=save
    try:
        rc=cl.signals_to_torch_feat_dir(args)
    except KeyboardInterrupt:
        sys.exit(130)
    sys.exit(rc or 0)
def run(args, kill_at=None, kind='hard'):
    pid=os.fork()
    if pid==0:
        try: child(args, kill_at, kind)
        finally: os._exit(99)
    _,st=os.waitpid(pid,0); return st
for workers in (0,2):
  for kind in ('hard','soft'):
    d=f'c_{workers}_{kind}'; man=d+'.man'
    shutil.rmtree(d,ignore_errors=True)
    if os.path.exists(man): os.remove(man)
    args=['map',d,'--seed=7','--preprocess=pre.json',f'--num-workers={workers}',f'--manifest={man}']
    t=time.time(); st=run(args,kill_at=3,kind=kind); dt=time.time()-t
    files=sorted(os.listdir(d)) if os.path.isdir(d) else []
    print(workers,kind,'status',st,'files',files,'manifest',open(man).read().split(),'%.2fs'%dt)
    st=run(args); 
    same=[torch.equal(torch.load(f'{d}/u{i}.pt'),torch.load(f'full/u{i}.pt')) for i in range(6)]
    print('   resumed status',st,'same as uninterrupted',same,'manifest',open(man).read().split())
