---- MODULE TraceSi ----
EXTENDS SiStream, IOUtils
Traces == ndJsonDeserialize(IOEnv.TRACE_FILE)
VARIABLES tid, l, nfail
tvars == <<vars, tid, l, nfail>>
Fresh(c) == /\ cfg' = c /\ started' = FALSE /\ skip' = 0 /\ xRem' = 0 /\ yRem' = 0
            /\ xbuf' = [k \in 1..c.D |-> -7]
            /\ ybuf' = [b \in 1..CeilDiv(c.D - c.M + 2*c.S, c.S) |-> <<{<<-7,-7>>},{<<-7,-7>>}>>]
            /\ ynext' = 0 /\ out' = <<>> /\ ret' = <<>> /\ fed' = 0 /\ fin' = FALSE /\ bad' = FALSE /\ hist' = <<>>
TInit == /\ tid = 1 /\ l = 1 /\ nfail = 0
         /\ cfg = Traces[1].cfg /\ started = FALSE /\ skip = 0 /\ xRem = 0 /\ yRem = 0
         /\ xbuf = [k \in 1..cfg.D |-> -7]
         /\ ybuf = [b \in 1..CeilDiv(cfg.D - cfg.M + 2*cfg.S, cfg.S) |-> <<{<<-7,-7>>},{<<-7,-7>>}>>]
         /\ ynext = 0 /\ out = <<>> /\ ret = <<>> /\ fed = 0 /\ fin = FALSE /\ bad = FALSE /\ hist = <<>>
Ev == Traces[tid].events[l]
NextTrace(failed) == /\ tid < Len(Traces) /\ tid' = tid + 1 /\ l' = 1 /\ nfail' = nfail + (IF failed THEN 1 ELSE 0)
                     /\ Fresh(Traces[tid + 1].cfg)
                     /\ IF failed THEN PrintT(<<"REJECTED", Traces[tid].tid, l>>) ELSE TRUE
LastDone(failed) == /\ tid = Len(Traces) /\ tid' = tid + 1 /\ l' = 1 /\ nfail' = nfail + (IF failed THEN 1 ELSE 0)
                    /\ IF failed THEN PrintT(<<"REJECTED", Traces[tid].tid, l>>) ELSE TRUE
                    /\ UNCHANGED vars
Step == /\ tid <= Len(Traces) /\ l <= Len(Traces[tid].events)
        /\ IF Ev.a = "chunk"
           THEN /\ Chunk(Ev.c)
           ELSE /\ Finalize
        /\ hist'[Len(hist')].p = Ev.p /\ ~bad'
        /\ l' = l + 1 /\ UNCHANGED <<tid, nfail>>
Advance == /\ tid <= Len(Traces)
           /\ \/ (l > Len(Traces[tid].events) /\ (NextTrace(FALSE) \/ LastDone(FALSE)))
              \/ (l <= Len(Traces[tid].events) /\ ~ENABLED Step /\ (NextTrace(TRUE) \/ LastDone(TRUE)))
TNext == Step \/ Advance
TSpec == TInit /\ [][TNext]_tvars
AllSeen == tid = Len(Traces) + 1 => TLCSet(1, nfail)
Post == TLCGet(1) = 0
====
