#!/bin/sh
# Offline set-up: checks the tools, regenerates the generated MC modules and
# parses every specification module with SANY.  Nothing is fetched.
set -e
cd "$(dirname "$0")"
command -v java >/dev/null || { echo "java missing"; exit 2; }
test -f /opt/veriftools/tla/tla2tools.jar || { echo "tla2tools.jar missing"; exit 2; }
test -x /venv/bin/python || { echo "/venv/bin/python missing"; exit 2; }
/venv/bin/python harness/gen_mc.py
mkdir -p evidence replays
fail=0
for f in spec/*.tla; do
  m=$(basename "$f" .tla)
  out=$(cd spec && java -cp /opt/veriftools/tla/tla2tools.jar:/opt/veriftools/tla/CommunityModules-deps.jar tla2sany.SANY "$m.tla" 2>&1) || true
  if echo "$out" | grep -q -E "Parse Error|Semantic errors|Fatal errors|Could not find module"; then
    echo "SANY failed on $m"; echo "$out" | tail -15; fail=1
  fi
done
[ $fail -eq 0 ] && echo "setup ok" || exit 2
