#!/venv/bin/python
"""Regenerates harness/data/shorten_corpus.json: a small set of behaviours of spec/Shorten.tla (header, bit string, samples,
commands) exported by TLC simulation, selected so that every command occurs (BITSHIFT inside a frame too), all four file
types, both versions, 1-3 channels.  C11 and C13 replay it on every run (cheap); C13 also explores fresh behaviours."""
import json, os, sys
sys.path.insert(0, "/verif/harness")
import common
common.repo_on_path()
import c13
behs = []
for seed in (9001, 9002, 9003, 9004, 9005, 9006):
    r = c13.simulate(400, 140, seed)
    if r.violated:
        sys.exit("model violated: %s" % r.violated)
    behs += [b for b in r.exported if b["data"] and len(b["data"][0]) > 0]
def feats(b):
    f = {"cmd%d" % c for c in b["note"]} | {"ft%d" % b["hdr"]["ftype"], "v%d" % b["hdr"]["version"], "ch%d" % b["hdr"]["nchan"],
                                            "nmean%d" % min(b["hdr"]["nmean"], 1)}
    ch = 0
    for c in b["note"]:
        if c == 6 and ch % b["hdr"]["nchan"]:
            f.add("midframe_shift")
        if c in (0, 1, 2, 3, 7, 8):
            ch += 1
    if 6 in b["note"] and b["hdr"]["ftype"] in (3, 5):
        f.add("pcm_shift")
    return f
chosen, covered = [], set()
behs.sort(key=lambda b: len(b["bits"]))
while True:
    best = max(behs, key=lambda b: (len(feats(b) - covered), -len(b["bits"])))
    gain = feats(best) - covered
    if not gain:
        break
    chosen.append(best)
    covered |= gain
    behs.remove(best)
# a few more with PCM bit shifts and several blocks
extra = [b for b in behs if "pcm_shift" in feats(b) and len(b["note"]) >= 4][:12]
chosen += extra
behs = [b for b in behs if b not in extra]
behs.sort(key=lambda b: -len(set(b["note"])))
chosen += behs[:100]
behs = behs[100:]
# several LPC blocks in one stream (orders that differ from block to block and from channel to channel), and silent
# blocks followed by DIFF0 / QLPC blocks with a running mean
multi_lpc = [b for b in behs if b["note"].count(7) >= 2 and b["hdr"]["maxnlpc"] >= 2][:80]
chosen += multi_lpc
behs = [b for b in behs if b not in multi_lpc]
zero_mean = [b for b in behs if b["hdr"]["nmean"] > 0 and any(c == 8 and any(d in (0, 7) for d in b["note"][i + 1:i + 5])
                                                            for i, c in enumerate(b["note"]))][:60]
chosen += zero_mean
out = os.path.join("/verif/harness/data/shorten_corpus.json")
json.dump({"generated_by": "tools/make_shorten_corpus.py from spec/Shorten.tla (MC_Shorten, Shorten_sim.cfg)", "covered": sorted(covered),
           "behaviours": chosen}, open(out, "w"))
print(len(chosen), "behaviours;", sorted(covered))
