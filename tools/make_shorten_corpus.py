#!/venv/bin/python
"""Regenerates harness/data/shorten_corpus.json: a small set of behaviours of spec/Shorten.tla (header, bit string, samples,
commands) exported by TLC simulation, selected so that every command occurs (BITSHIFT inside a frame too), all four file
types, both versions, 1-3 channels.  C11 and C13 replay it on every run (cheap); C13 also explores fresh behaviours."""
import json, os, sys
sys.path.insert(0, "/verif/harness")
import common
common.repo_on_path()
import c13
behs = []
for seed in (9001, 9002, 9003):
    r = c13.simulate(400, 140, seed)
    if r.violated:
        sys.exit("model violated: %s" % r.violated)
    behs += [b for b in r.exported if b["data"] and len(b["data"][0]) > 0]
def feats(b):
    f = {"cmd%d" % c for c in b["note"]} | {"ft%d" % b["hdr"]["ftype"], "v%d" % b["hdr"]["version"], "ch%d" % b["hdr"]["nchan"],
                                            "nmean%d" % min(b["hdr"]["nmean"], 1)}
    ch = 0
    for c in b["note"]:
        if c == 6 and ch % b["hdr"]["nchan"]:
            f.add("midframe_shift")
        if c in (0, 1, 2, 3, 7, 8):
            ch += 1
    if 6 in b["note"] and b["hdr"]["ftype"] in (3, 5):
        f.add("pcm_shift")
    return f
chosen, covered = [], set()
behs.sort(key=lambda b: len(b["bits"]))
while True:
    best = max(behs, key=lambda b: (len(feats(b) - covered), -len(b["bits"])))
    gain = feats(best) - covered
    if not gain:
        break
    chosen.append(best)
    covered |= gain
    behs.remove(best)
# a few more with PCM bit shifts and several blocks
extra = [b for b in behs if "pcm_shift" in feats(b) and len(b["note"]) >= 4][:12]
chosen += extra
behs = [b for b in behs if b not in extra]
behs.sort(key=lambda b: -len(set(b["note"])))
chosen += behs[:24]
out = os.path.join("/verif/harness/data/shorten_corpus.json")
json.dump({"generated_by": "tools/make_shorten_corpus.py from spec/Shorten.tla (MC_Shorten, Shorten_sim.cfg)", "covered": sorted(covered),
           "behaviours": chosen}, open(out, "w"))
print(len(chosen), "behaviours;", sorted(covered))
