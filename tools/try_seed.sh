#!/bin/sh
# usage: tools/try_seed.sh <patch.diff> <PROP> [tier]   - applies a seeded change to /repo, runs the check, reverts
patch="$(realpath "$1")"; prop="$2"; tier="${3:-quick}"
cd /repo || exit 2
git diff --quiet || { echo "/repo has local changes; refusing"; exit 2; }
git apply "$patch" || { echo "patch does not apply"; exit 2; }
cd /verif && ./check "$prop" --tier "$tier" > /tmp/try_seed_$prop.log 2>&1; rc=$?
git -C /repo checkout -- .
grep -E "^VIOLATION|^KNOWN|tier=|MACHINERY" /tmp/try_seed_$prop.log | cut -c1-220
echo "exit=$rc"
