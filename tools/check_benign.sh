#!/bin/sh
# usage: tools/check_benign.sh [id ...]
# Applies every behaviour-preserving refactoring under seeded_benign/ in a scratch worktree (tools/try_seed_wt.sh) and
# runs the quick tier of the properties named in its meta.json.  Any exit code other than 0 is a false alarm (or a
# harness that depends on something no property promises) and is reported; exit 1 if there was one.
cd "$(dirname "$0")/.." || exit 2
bad=0
ids="$*"; [ -z "$ids" ] && ids=$(ls seeded_benign)
for id in $ids; do
  for p in $(python3 -c "import json,sys; print(' '.join(json.load(open('seeded_benign/$id/meta.json'))['properties_checked']))"); do
    out=$(tools/try_seed_wt.sh seeded_benign/$id/patch.diff $p 2>&1); rc=$?
    echo "$id $p exit=$rc"
    if [ $rc -ne 0 ]; then bad=1; echo "$out" | grep -E "^VIOLATION|MACHINERY" | head -3; fi
  done
done
exit $bad
