#!/usr/bin/env python3
"""Regenerates Appendix B of DESIGN.md (between the markers) from /verif/seeded/*/meta.json."""
import glob, json, os, re
V = "/verif"
rows = []
for f in sorted(glob.glob(os.path.join(V, "seeded", "*", "meta.json"))):
    m = json.load(open(f))
    rows.append(m)
out = ["<!-- CATCH-MATRIX-BEGIN -->", "",
       "| seeded change | property | what it needs to manifest | detected by `./check <property> --tier quick` | violation kinds reported |",
       "|---|---|---|---|---|"]
for m in rows:
    need = re.sub(r"\s+", " ", m.get("needs_to_manifest", ""))[:260].replace("|", "/")
    kinds = ", ".join(m.get("violation_kinds", [])[:3])
    out.append("| %s | %s | %s | %s | %s |" % (m["id"], m["breaks_property"], need, "yes" if m.get("detected") else "NO", kinds))
nd = sum(1 for m in rows if m.get("detected"))
out += ["", "%d of %d seeded changes detected by the quick tier of the check of the property they break." % (nd, len(rows)), "", "<!-- CATCH-MATRIX-END -->"]
p = os.path.join(V, "DESIGN.md")
s = open(p).read()
block = "\n".join(out)
if "<!-- CATCH-MATRIX-BEGIN -->" in s:
    s = re.sub(r"<!-- CATCH-MATRIX-BEGIN -->.*<!-- CATCH-MATRIX-END -->", lambda _: block, s, flags=re.S)
else:
    s += "\n## Appendix B. Catch matrix: seeded changes against the checks\n\n" \
         "Each change was produced by an independent sub-agent that saw only the property text and a scratch worktree " \
         "(round 1: two per claimed property; round 2: a second pair asked to avoid the obvious loop slips), or is the reverse of " \
         "one of the `fix:` commits (`regress-*`).  Each was confirmed in a scratch worktree (patch applies, its demonstration fails " \
         "with it and passes without, the repository's test-suite keeps the same failing set) before being kept under " \
         "`/verif/seeded/<id>/`.  Changes the checks missed at first, and what was strengthened, are listed after the table.\n\n" + block + "\n"
open(p, "w").write(s)
print("matrix rows:", len(rows), "detected:", nd)
