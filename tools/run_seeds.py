#!/venv/bin/python
"""Builds /verif/seeded/<id>/ from seeded_incoming/ (agent-made changes, verified by verify_seeds.sh) and from the
reverse patches of the 'fix:' commits, runs the relevant quick check against each (apply, check, undo) and writes
meta.json with what was observed."""
import json, os, re, shutil, subprocess, sys
V = "/verif"
inc = os.path.join(V, "seeded_incoming")
out = os.path.join(V, "seeded")
os.makedirs(out, exist_ok=True)
verify = {}
for l in open(os.path.join(inc, "verify.log")):
    m = re.match(r"(C\d+/mut\d): demo_before=(\d+) demo_after=(\d+) suite=(\w+)", l)
    if m:
        verify[m.group(1)] = (int(m.group(2)), int(m.group(3)), m.group(4))

def sh(cmd, **kw):
    return subprocess.run(cmd, shell=True, stdout=subprocess.PIPE, stderr=subprocess.STDOUT, text=True, errors="replace", **kw)

def run_check(patch, prop):
    """the seeded change in a scratch worktree of /repo HEAD, checked by a scratch copy of /verif (tools/try_seed_wt.sh):
    /repo and /verif/evidence are never touched"""
    c = sh("/verif/tools/try_seed_wt.sh %s %s" % (patch, prop))
    if "patch does not apply" in c.stdout:
        return None, ["patch does not apply"]
    kinds = sorted(set(re.findall(r"replays/C\d+/(.+?)_[0-9a-f]{12}\.json", c.stdout)))
    return c.returncode, kinds

seeds = []
for rnd, base in (("", inc), ("r2", os.path.join(inc, "r2")), ("r3", os.path.join(inc, "r3")), ("r4", os.path.join(inc, "r4")), ("r5", os.path.join(inc, "r5")), ("r6", os.path.join(inc, "r6")), ("r7", os.path.join(inc, "r7")), ("r8", os.path.join(inc, "r8")), ("r9", os.path.join(inc, "r9")), ("r10", os.path.join(inc, "r10")), ("r11", os.path.join(inc, "r11")), ("r12", os.path.join(inc, "r12"))):
    if not os.path.isdir(base):
        continue
    for prop in sorted(os.listdir(base)):
        d = os.path.join(base, prop)
        if not os.path.isdir(d) or not prop.startswith("C"):
            continue
        for mut in sorted(os.listdir(d)):
            if mut.startswith("mut"):
                seeds.append((prop, mut, rnd, os.path.join(d, mut)))
for rnd in ("r2", "r3", "r4", "r5", "r6", "r7", "r8", "r9", "r10", "r11", "r12"):
    lp = os.path.join(inc, "verify_%s.log" % rnd)
    for l in (open(lp) if os.path.exists(lp) else []):
        m = re.match(r"(C\d+/mut\d): demo_before=(\d+) demo_after=(\d+) suite=(\w+)", l)
        if m:
            verify[rnd + "/" + m.group(1)] = (int(m.group(2)), int(m.group(3)), m.group(4))
only = sys.argv[1:]
# regression seeds: the reverse of each fix: commit
jobs = []
reg = os.path.join(inc, "regress")
redo = os.environ.get("SEEDS_REDO") == "1"


def job_regress(name):
    sid = "regress-" + name
    info = json.load(open(os.path.join(reg, name, "info.json")))
    dst = os.path.join(out, sid)
    os.makedirs(dst, exist_ok=True)
    shutil.copy(os.path.join(reg, name, "patch.diff"), os.path.join(dst, "patch.diff"))
    rc, kinds = run_check(os.path.join(dst, "patch.diff"), info["property"])
    json.dump({"id": sid, "breaks_property": info["property"], "origin": "reverse of fix: commit %s (ported onto the hook commit where needed)" % info["fix"],
               "needs_to_manifest": info["what"], "confirmed_in_scratch_worktree": "the defect was reproduced against the real code before the fix (DESIGN.md section 0.4); the repository's tests pass with and without the fix",
               "ran": "tools/run_seeds.py -> tools/try_seed_wt.sh", "check_exit": rc, "detected": rc == 1, "violation_kinds": kinds},
              open(os.path.join(dst, "meta.json"), "w"), indent=1)
    return sid, rc, kinds[:3]


def job_seed(prop, mut, rnd, src):
    sid = "%s-%s%s" % (prop, (rnd + "-") if rnd else "", mut)
    dst = os.path.join(out, sid)
    os.makedirs(dst, exist_ok=True)
    patch = "patch_ported.diff" if os.path.exists(os.path.join(src, "patch_ported.diff")) else "patch.diff"
    if os.path.exists(os.path.join(dst, "patch_as_delivered.diff")) and patch == "patch.diff":
        pass  # ported by hand onto later commits of /repo: seeded/<id>/patch.diff is the one that applies
    else:
        shutil.copy(os.path.join(src, patch), os.path.join(dst, "patch.diff"))
        if patch != "patch.diff":
            shutil.copy(os.path.join(src, "patch.diff"), os.path.join(dst, "patch_as_delivered.diff"))
    for f in ("demo.py", "notes.md"):
        if os.path.exists(os.path.join(src, f)):
            shutil.copy(os.path.join(src, f), os.path.join(dst, f))
    rc, kinds = run_check(os.path.join(dst, "patch.diff"), prop)
    v = verify.get("%s%s/%s" % ((rnd + "/") if rnd else "", prop, mut))
    notes = open(os.path.join(dst, "notes.md"), errors="replace").read() if os.path.exists(os.path.join(dst, "notes.md")) else ""
    meta = {
        "id": sid, "breaks_property": prop, "origin": "independent sub-agent given only the property text and a scratch worktree",
        "needs_to_manifest": notes.strip().split("\n\n")[0][:1500],
        "confirmed_in_scratch_worktree": None if v is None else {
            "demo_exit_on_unmodified_tree": v[0], "demo_exit_with_change": v[1], "repository_test_suite_failing_set": v[2],
            "how": "tools/verify_seeds.sh: git worktree of /repo HEAD, PYTHONPATH=<worktree>/src, demo.py before/after git apply, full pytest before/after"},
        "ran": "tools/run_seeds.py -> tools/try_seed_wt.sh patch.diff %s (scratch worktree of /repo HEAD + scratch copy of /verif, quick tier)" % prop,
        "check_exit": rc, "detected": rc == 1, "violation_kinds": kinds,
    }
    json.dump(meta, open(os.path.join(dst, "meta.json"), "w"), indent=1)
    return sid, rc, kinds[:3]


for name in (sorted(os.listdir(reg)) if os.path.isdir(reg) else []):
    sid = "regress-" + name
    if only and sid not in only:
        continue
    if not only and not redo and os.path.exists(os.path.join(out, sid, "meta.json")):
        continue
    jobs.append((job_regress, (name,)))
for prop, mut, rnd, src in seeds:
    sid = "%s-%s%s" % (prop, (rnd + "-") if rnd else "", mut)
    if only and sid not in only:
        continue
    if not only and not redo and os.path.exists(os.path.join(out, sid, "meta.json")):
        continue
    jobs.append((job_seed, (prop, mut, rnd, src)))
from concurrent.futures import ThreadPoolExecutor
with ThreadPoolExecutor(max_workers=int(os.environ.get("SEEDS_JOBS", "4"))) as ex:
    for res in ex.map(lambda j: j[0](*j[1]), jobs):
        print(*res, flush=True)
