#!/bin/sh
# Confirms every seeded change in a scratch worktree: patch applies, demo fails with it and passes without,
# the repository's test-suite keeps the same failing set.
# usage: verify_seeds.sh [<dir holding C*/mut*>] [<log file>]
WT=/tmp/wt/verify
git -C /repo worktree remove --force $WT 2>/dev/null
git -C /repo worktree add --detach $WT HEAD >/dev/null 2>&1 || exit 2
export PYTHONPATH=$WT/src
cd $WT
/venv/bin/python -m pytest -q -p no:cacheprovider --timeout=900 2>&1 | grep -E "^FAILED" | sed 's/ - .*//' | sort > /tmp/wt/base_failed.txt
BASE=${1:-/verif/seeded_incoming}
LOG=${2:-/verif/seeded_incoming/verify.log}
: > $LOG
echo "baseline failing: $(wc -l < /tmp/wt/base_failed.txt)" >> $LOG
for d in $BASE/C*/mut*; do
  p=$d/patch.diff; [ -f $d/patch_ported.diff ] && p=$d/patch_ported.diff
  name=$(echo $d | sed "s|$BASE/||")
  git -C $WT checkout -q -- . 
  before=$(cd $d && /venv/bin/python demo.py >/dev/null 2>&1; echo $?)
  if ! git -C $WT apply $p 2>/dev/null; then echo "$name: PATCH-DOES-NOT-APPLY" >> $LOG; continue; fi
  after=$(cd $d && /venv/bin/python demo.py >/dev/null 2>&1; echo $?)
  cd $WT; /venv/bin/python -m pytest -q -p no:cacheprovider --timeout=900 2>&1 | grep -E "^FAILED" | sed 's/ - .*//' | sort > /tmp/wt/mut_failed.txt
  same=$(cmp -s /tmp/wt/base_failed.txt /tmp/wt/mut_failed.txt && echo same || echo DIFFERENT)
  echo "$name: demo_before=$before demo_after=$after suite=$same" >> $LOG
done
git -C $WT checkout -q -- .
git -C /repo worktree remove --force $WT
echo DONE >> $LOG
