#!/bin/sh
# usage: tools/try_seed_wt.sh <patch.diff> <PROP> [tier]
# Like try_seed.sh but never touches /repo or /verif's evidence: the seeded change is applied in a scratch
# worktree of /repo HEAD and a scratch copy of /verif checks that worktree (VERIF_REPO_SRC).  Safe to run
# several at once and while other checks are running.
patch="$(realpath "$1")"; prop="$2"; tier="${3:-quick}"
tag="$$"
WT=/tmp/wt/try_wt_$tag; VC=/tmp/wt/try_verif_$tag
mkdir -p /tmp/wt
git -C /repo worktree add --detach "$WT" HEAD >/dev/null 2>&1 || { echo "cannot create worktree"; exit 2; }
cleanup() { git -C /repo worktree remove --force "$WT" >/dev/null 2>&1; rm -rf "$VC"; }
trap cleanup EXIT
if ! git -C "$WT" apply "$patch" 2>/dev/null && ! git -C "$WT" apply -3 "$patch" >/dev/null 2>&1; then
  echo "patch does not apply"; exit 2
fi
rsync -a --exclude .git --exclude seeded --exclude seeded_incoming --exclude replays --exclude evidence /verif/ "$VC"/
mkdir -p "$VC/evidence"
cd "$VC" && VERIF_REPO_SRC="$WT/src" ./check "$prop" --tier "$tier" > "$VC/log" 2>&1; rc=$?
grep -E "^VIOLATION|^KNOWN|tier=|MACHINERY" "$VC/log" | cut -c1-220
[ $rc -eq 2 ] && tail -5 "$VC/log"
echo "exit=$rc"
exit $rc
