"""C03  Short-integration coefficients equal their documented definition.

S  TLC: SiStream (valid convolution windows, every (output, window column) pair
   accumulated exactly once, frames = SiDef, frame count, dtype rule).
B  spec -> code: the definition frames TLC exports (SiDefTable / SiDefCases) are
   evaluated by a direct O(N M) convolution and compared with the real
   SIFrameComputer: stub banks over the option matrix (power / magnitude, log,
   energy, two filters, float32 / float64), then real Gabor / gammatone /
   triangular banks at 8 and 16 kHz with lengths around 0, S, L and 1-3 DFT
   blocks, three float dtypes.  code -> spec: every call's private counters
   validated against SiStream (TraceSi).
"""
import json
import os
import random
import shutil
import tempfile

import numpy as np

import common
import si_model
from pydrobert.speech import compute, filters, config as pconfig


def export_cases(cases):
    d = tempfile.mkdtemp(prefix="verif_sdc_")
    try:
        inp, out = os.path.join(d, "cases.json"), os.path.join(d, "table.json")
        json.dump(cases, open(inp, "w"))
        common.tlc("SiDefCases", "SiDefCases.cfg", workdir=d, workers=1, env={"IN_FILE": inp, "OUT_FILE": out}, timeout=900)
        return json.load(open(out))
    finally:
        shutil.rmtree(d, ignore_errors=True)


def documented_geometry(bank, S, style, pad):
    """M, T, D and the clamped filters g_i as the class documentation describes them."""
    sup = bank.supports
    if style == "centered":
        M = max(r - l for l, r in sup)
        T = M // 2
    else:
        T = max([0] + [-l for l, r in sup])
        M = max(r for l, r in sup) + T
    L = M + S - 1
    D = max(L, int(np.ceil(2 * bank.sampling_rate / min(r - l for l, r in bank.supports_hz))))
    if pad:
        D = int(2 ** np.ceil(np.log2(D)))
    gs = []
    for i in range(bank.num_filts):
        ir = bank.get_impulse_response(i, D)
        if style == "centered":
            l, r = sup[i]
            g = np.roll(ir, T - (l + r) // 2 + 1)[:M]
        else:
            g = np.roll(ir, T)[:M]
        gs.append(g)
    return M, T, D, gs


def real_banks(run, tier, nprng):
    plans = []
    rates = (8000, 16000)
    for rate in rates:
        mk = [
            ("gabor_mel", lambda: filters.GaborFilterBank("mel", num_filts=3, sampling_rate=rate)),
            ("gammatone_mel", lambda: filters.ComplexGammatoneFilterBank("mel", num_filts=3, sampling_rate=rate)),
            ("tri_mel", lambda: filters.TriangularOverlappingFilterBank("mel", num_filts=3, sampling_rate=rate)),
            ("gabor_bark_erb", lambda: filters.GaborFilterBank("bark", num_filts=2, sampling_rate=rate, erb=True)),
        ]
        if tier == "quick":
            mk = mk[:3] if rate == 8000 else mk[:1]
        for name, f in mk:
            for style in ("causal", "centered"):
                for pad in (True, False):
                    if tier == "quick" and pad is False and name != "gabor_mel":
                        continue
                    plans.append((rate, name, f, style, pad))
    cases, todo = [], []
    k = 0
    for (rate, name, f, style, pad) in plans:
        k += 1
        bank = f()
        shift_ms = (10, 5, 7.5)[k % 3]
        S = int(0.001 * shift_ms * rate)
        M, T, D, gs = documented_geometry(bank, S, style, pad)
        # C03's precondition (frame shift shorter than the one-sided support)
        if style == "causal":
            if not S < max(r for l, r in bank.supports):
                continue
        elif not S < M - M // 2:
            continue
        V = D - M + 1
        L = M + S - 1
        Ns = sorted({0, 1, S - 1, S, S + 1, L, D, D + 1, V + 3, 2 * D + 17, 3 * V + S + 1})
        if tier == "quick":
            Ns = Ns[::2]
        for N in Ns:
            cases.append({"style": style, "S": S, "M": M, "T": T, "D": D, "N": N})
            todo.append((rate, name, bank, style, pad, shift_ms, S, M, T, D, gs, N, k))
    rows = export_cases(cases)
    for row, (rate, name, bank, style, pad, shift_ms, S, M, T, D, gs, N, k) in zip(rows, todo):
        log, power, energy = bool(k & 1), bool(k & 2), bool(k & 4)
        comp = compute.SIFrameComputer(bank, frame_shift_ms=shift_ms, frame_style=style, pad_to_nearest_power_of_two=pad,
                                       use_log=log, use_power=power, include_energy=energy)
        geo = (comp._frame_shift, comp._max_support, comp._translation, comp._dft_size)
        x = nprng.randn(N) * (1.0, 1.0, 1e-3, 0.0)[(k + N) % 4]
        # no window_function given: the documented default is decided by the frame style alone (Gamma for causal,
        # Hann otherwise), whatever the bank's phase; the taps themselves are C20's business
        w2 = (filters.GammaWindow() if style == "causal" else filters.HannWindow()).get_impulse_response(2 * S)
        filt = list(gs)
        if energy:
            e = np.zeros(T + 1)
            e[T] = 1.0
            filt = [e] + filt
        exp = np.zeros((row["nframes"], len(filt)))
        for i, g in enumerate(filt):
            y = np.convolve(x, g) if N else np.zeros(0, dtype=np.asarray(g).dtype)
            a = np.abs(y)
            a = a * a if power else a
            for kf, fr in enumerate(row["frames"]):
                if fr:
                    idx = np.array([p[0] for p in fr])
                    col = np.array([p[1] for p in fr])
                    ok = idx < len(a)
                    exp[kf, i] = np.sum(a[idx[ok]] * w2[col[ok]])
        borderline = np.zeros(exp.shape, dtype=bool)
        if log:
            borderline = np.abs(exp - pconfig.LOG_FLOOR_VALUE) <= 1e-6 * pconfig.LOG_FLOOR_VALUE
            exp = np.log(np.maximum(exp, pconfig.LOG_FLOOR_VALUE))
        if k % 2 == 0:
            # a signal of integer samples offered first (refused today; accepted or not, it is none of the float signals'
            # business: "input of any floating dtype is accepted" also afterwards)
            try:
                comp.compute_full((x * 100).astype(np.int16))
            except Exception:
                pass
        for dt, tol in ((np.float64, 1e-7), (np.float32, 2e-3), (np.float16, 5e-2)):
            got = comp.compute_full(x.astype(dt))
            run.evaluations += 1
            what = None
            if got.shape != exp.shape:
                what = "shape %s, definition %s (geometry code %s documented %s)" % (got.shape, exp.shape, geo, (S, M, T, D))
            elif got.dtype != np.dtype(dt):
                what = "result dtype %s for %s input" % (got.dtype, np.dtype(dt))
            elif dt != np.float16:
                ref = exp
                if dt == np.float32:
                    # the input itself was rounded: re-evaluate the definition on the rounded input? no - tolerance covers it
                    pass
                okm = np.isclose(got.astype(np.float64), ref, rtol=tol, atol=tol) | borderline | (si_model.near_floor(ref) if dt != np.float64 else False)
                if not okm.all():
                    kk, ii = np.argwhere(~okm)[0]
                    what = "frame %d coeff %d: got %r, definition %r" % (kk, ii, float(got[kk, ii]), float(ref[kk, ii]))
            else:
                okm = np.isclose(got.astype(np.float64), exp, rtol=tol, atol=tol) | si_model.near_floor(exp) | ~np.isfinite(got.astype(np.float64))
                if not okm.all():
                    kk, ii = np.argwhere(~okm)[0]
                    what = "frame %d coeff %d: got %r, definition %r" % (kk, ii, float(got[kk, ii]), float(exp[kk, ii]))
            if what:
                run.violation({"kind": "si_real_bank_differs_from_definition", "bank": name, "rate": rate, "style": style, "pad": pad,
                               "S": S, "M": M, "T": T, "D": D, "N": N, "dtype": str(np.dtype(dt)),
                               "use_log": log, "use_power": power, "include_energy": energy, "what": what})
        if k % 5 == 0 and N == S:
            run.sample({"real_case": {"bank": name, "rate": rate, "style": style, "S": S, "M": M, "T": T, "D": D, "N": N, "nframes": row["nframes"]}})
    run.extra["real_bank_cases"] = len(todo)


def count_level(run, tier, nprng):
    """SiCount: TLC (small), Apalache inductive invariant at real sizes (unbounded N and chunk sizes), and
    recorded chunked executions of real banks validated by TraceSiCount."""
    r = common.tlc("SiCount", "SiCount_tlc.cfg", workers=4, timeout=600)
    if r.violated:
        run.violation({"kind": "model_" + r.violated, "module": "SiCount", "detail": r.errtext[-2000:]})
    run.add_tlc("SiCount", r)
    mods = ["MC_SiCount_2_5_2_8_0", "MC_SiCount_80_401_200_512_1"] if tier == "quick" else \
        ["MC_SiCount_2_5_2_8_0", "MC_SiCount_2_5_2_6_1", "MC_SiCount_80_401_200_512_1", "MC_SiCount_80_321_0_512_0",
         "MC_SiCount_160_801_400_1024_1", "MC_SiCount_3_6_2_8_0"]
    from concurrent.futures import ThreadPoolExecutor
    jobs = [(m, "Init", 0) for m in mods] + [(m, "IndInit", 1) for m in mods]
    with ThreadPoolExecutor(max_workers=6) as ex:
        res = list(ex.map(lambda j: common.apalache(j[0], j[1], "IndInv", j[2]), jobs))
    out = []
    for (m, init, ln), verdict in zip(jobs, res):
        out.append({"module": m, "obligation": "Init => IndInv" if ln == 0 else "IndInv and Next => IndInv'", "verdict": verdict})
        if verdict == "violated":
            run.violation({"kind": "apalache_inductive_invariant_violated", "module": m, "init": init, "length": ln})
    run.extra["apalache"] = out
    run.extra["apalache_discharged"] = sum(1 for o in out if o["verdict"] == "ok")
    if any(o["verdict"].startswith("not_attempted") for o in out):
        run.not_decided.append("Apalache obligations not attempted: " + "; ".join("%s %s" % (o["module"], o["verdict"][:60]) for o in out if o["verdict"] != "ok"))
    # real banks, chunked, count level
    traces, tid = [], 0
    for rate in (8000, 16000):
        for style in ("causal", "centered"):
            bank = filters.GaborFilterBank("mel", num_filts=12, sampling_rate=rate)
            shift_ms = 10
            while True:
                comp = compute.SIFrameComputer(bank, frame_shift_ms=shift_ms, frame_style=style)
                S, M, Tt, D = comp._frame_shift, comp._max_support, comp._translation, comp._dft_size
                # C03's precondition: the shift is shorter than the one-sided support
                ok = (S < M - M // 2) if style == "centered" else (S < max(r for l, r in bank.supports))
                if ok or shift_ms < 0.5:
                    break
                shift_ms /= 2.0
            if not ok:
                continue
            for _ in range(10 if tier == "quick" else 80):
                N = int(nprng.choice([0, 1, S // 2, S, M, D, D + 1, 3 * D + 7, nprng.randint(1, 5 * D)]))
                x = nprng.randn(N)
                events, p = [], 0
                while p < N or nprng.rand() < 0.15:
                    k = int(min(N - p, nprng.choice([0, 1, S, S + 1, M, D - M, D, 2 * D + 3, nprng.randint(0, D)])))
                    o = comp.compute_chunk(x[p:p + k])
                    p += k
                    events.append({"a": "chunk", "c": k, "nret": int(o.shape[0]), "st": bool(comp.started),
                                   "p": common.si_priv(comp)})
                    if len(events) > 50:
                        break
                if p < N:
                    o = comp.compute_chunk(x[p:])
                    events.append({"a": "chunk", "c": N - p, "nret": int(o.shape[0]), "st": bool(comp.started),
                                   "p": common.si_priv(comp)})
                o = comp.finalize()
                events.append({"a": "finalize", "c": 0, "nret": int(o.shape[0]), "st": bool(comp.started),
                               "p": {"skip": 0, "xRem": 0, "yRem": 0}})
                tid += 1
                traces.append({"tid": tid, "cfg": {"S": S, "M": M, "T": Tt, "D": D, "centered": style == "centered"}, "N": N, "events": events})
                run.evaluations += 1
    rej, r = common.validate_traces_parallel("TraceSiCount", "TraceSiCount.cfg", traces, shards=4)
    run.traces += len(traces)
    run.states += r.distinct
    run.transitions += r.generated
    byid = {t["tid"]: t for t in traces}
    for (tid_, line, clause) in rej:
        t = byid[tid_]
        run.violation({"kind": "si_real_size_count_" + clause, "cfg": t["cfg"], "N": t["N"], "event": line, "trace": t})
    run.extra["real_size_count_traces"] = len(traces)


def run(tier, seed):
    run = common.Run("C03", tier, seed)
    rng = random.Random(seed)
    nprng = np.random.RandomState(seed)
    si_model.model_check(run, tier)
    si_model.record_and_validate(run, tier, rng, prop="C03")
    real_banks(run, tier, nprng)
    count_level(run, tier, nprng)
    run.extra["rule"] = "stub banks: option matrix x lengths around 0,S,M,D,2D x float32/64 vs the TLC-exported definition; real banks: 8/16 kHz, lengths around 0,S,L,1-3 DFT blocks, three float dtypes"
    run.assumptions += ["the bank's get_impulse_response and the window taps are taken from the library (C07/C20's business)",
                        "stub filters for the centered style have a zero last tap so that they fit the window the computer keeps"]
    return run.finish()


def replay(path):
    print(json.dumps(json.load(open(path)), indent=1)[:4000])
    return 0
