"""An independent writer of NIST SPHERE files (uncompressed and shorten-wrapped)."""
import numpy as np


def header(nchan, count, nbytes=2, byte_format="01", coding="pcm", hsize=1024, rate=8000, extra=(), omit=(), lead=(), trail="", fill=b" "):
    fields = [
        ("channel_count", "-i %d" % nchan),
        ("sample_count", "-i %d" % count),
        ("sample_rate", "-i %d" % rate),
        ("sample_n_bytes", "-i %d" % nbytes),
        ("sample_byte_format", "-s%d %s" % (len(byte_format), byte_format)),
        ("sample_coding", "-s%d %s" % (len(coding), coding)),
    ]
    h = "NIST_1A\n%7d\n" % hsize
    for line in lead:  # (other fields first: the order of header fields is free)
        h += line + "\n"
    for k, v in fields:
        if k not in omit:
            h += "%s %s%s\n" % (k, v, trail)  # (trail: blanks after the value, which the header grammar allows)
    for line in extra:
        h += line + "\n"
    h += "end_head\n"
    b = h.encode()
    if len(b) > hsize:
        raise ValueError("header too long")
    return b + fill * (hsize - len(b))  # (what follows end_head up to the declared size is padding: any bytes)


METADATA = tuple("note_%03d -s10 abcdefghij" % j for j in range(38))  # (pushes the mandatory fields across byte 1024)


def pcm_file(x, byte_format="01", hsize=1024, promised=None, lead=()):
    """x: int16 array (n,) or (n, c)."""
    x = np.asarray(x)
    nchan = 1 if x.ndim == 1 else x.shape[1]
    n = x.shape[0]
    dt = "<i2" if byte_format == "01" else ">i2"
    return header(nchan, n if promised is None else promised, 2, byte_format, "pcm", hsize, lead=lead) + x.astype(dt).tobytes()


def law_file(codes, coding, nchan=1, hsize=1024, promised=None):
    """codes: uint8 array (n,) or (n, c) of mu-law / A-law codes."""
    codes = np.asarray(codes, dtype=np.uint8)
    n = codes.shape[0]
    return header(nchan, n if promised is None else promised, 1, "1", coding, hsize) + codes.tobytes()
