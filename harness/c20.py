"""C20  Windows and helper functions follow their documented closed forms.

S  TLC (constant evaluation of Circshift.tla): for every DFT size, impulse
   position, shift in -2D..2D, start index and length (wrapping segments too),
   explicit and defaulted dft_size, the implementation-shaped operator equals
   the shift theorem in exact Z_D arithmetic; the default dft_size never fails;
   the window areas are positive rationals.
B  spec -> code: every exported case is replayed on the real circshift_fourier
   with impulse spectra (expected values are the roots of unity the spec names)
   and both copy flags; random spectra against an explicit IDFT / roll / DFT;
   window classes for every width against numpy.<window>(w) / exported area;
   gamma window arg-max; Hz/angle round trip; gauss_quant against erfc.
"""
import json
import math
import os
import random
import shutil
import tempfile

import numpy as np

import common
from pydrobert.speech import filters, util


def export(tier):
    d = tempfile.mkdtemp(prefix="verif_cs_")
    try:
        out = os.path.join(d, "t.json")
        r = common.tlc("Circshift", "Circshift_%s.cfg" % tier, workdir=d, workers=1, env={"OUT_FILE": out}, timeout=1800)
        if r.violated:
            return None, r
        return json.load(open(out)), r
    finally:
        shutil.rmtree(d, ignore_errors=True)


def replay_cases(run, table, nprng):
    k = 0
    for c in table["cases"]:
        k += 1
        D, p, shift, start, ln = c["D"], c["p"], c["shift"], c["start"], c["len"]
        bins = (start + np.arange(ln)) % D
        seg = np.exp(-2j * np.pi * p * bins / D)
        exp = np.exp(-2j * np.pi * np.array(c["expected"]) / D)
        copy = bool(k & 1)
        arg = seg.copy()
        kw = {} if c["none"] else {"dft_size": D}
        if k % 3 == 0:
            # (positionally, in the documented order: filt, shift, start_idx, dft_size, copy)
            got = util.circshift_fourier(arg, shift, start, None if c["none"] else D, copy)
        elif k % 3 == 1 and c["none"]:
            got = util.circshift_fourier(arg, shift, start, copy=copy)
        else:
            got = util.circshift_fourier(arg, shift, start_idx=start, copy=copy, **kw)
        run.evaluations += 1
        if got.shape != exp.shape or not np.allclose(got, exp, rtol=0, atol=1e-9):
            run.violation({"kind": "circshift_differs_from_shift_theorem", "case": {q: c[q] for q in ("D", "p", "shift", "start", "len", "none")},
                           "copy": copy})
            continue
        if copy and not np.array_equal(arg, seg):
            run.violation({"kind": "circshift_copy_true_modified_input", "case": {q: c[q] for q in ("D", "p", "shift", "start", "len", "none")}})
        if not copy and got is not arg:
            run.violation({"kind": "circshift_copy_false_complex128_not_in_place", "case": {q: c[q] for q in ("D", "p", "shift", "start", "len", "none")}})
    run.sample({"circshift_case": table["cases"][len(table["cases"]) // 2]})


def random_spectra(run, tier, nprng):
    for D in ([2, 3, 8, 51, 64] if tier == "quick" else [2, 3, 5, 8, 51, 64, 100, 257, 1000]):
        x = nprng.randn(D) + 1j * nprng.randn(D)
        X = np.fft.fft(x)
        for shift in (-D - 3, -1, 0, 1, 2, D, 2 * D + 1, 100):
            for start, ln in ((0, D), (1, D - 1), (D // 2, D - D // 2), (D - 1, 1)):
                seg = X[start:start + ln].copy()
                full = np.zeros(D, complex)
                full[start:start + ln] = seg
                want = np.fft.fft(np.roll(np.fft.ifft(full), shift))[start:start + ln]
                for dsz in ((None, D) if start + ln == D else (D,)):
                    for copy in (True, False):
                        for dt in (np.complex128, np.complex64):
                            arg = seg.astype(dt)
                            keep = arg.copy()
                            kw = {} if dsz is None else {"dft_size": dsz}
                            got = util.circshift_fourier(arg, shift, start_idx=start, copy=copy, **kw)
                            run.evaluations += 1
                            tol = 1e-9 if dt == np.complex128 else 1e-3 * max(1.0, np.abs(want).max())
                            if got.shape != want.shape or not np.allclose(got, want, rtol=0, atol=tol):
                                run.violation({"kind": "circshift_random_spectrum_differs", "D": D, "shift": shift, "start": start, "len": ln,
                                               "dft_size": dsz, "copy": copy, "dtype": str(np.dtype(dt))})
                            elif (copy or dt != np.complex128) and not np.array_equal(arg, keep):
                                run.violation({"kind": "circshift_modified_input", "D": D, "shift": shift, "copy": copy, "dtype": str(np.dtype(dt))})


def real_valued_segments(run, tier, nprng):
    """Spectrum segments of a real dtype (the triangular and Gabor banks produce them): the shift theorem is the same."""
    for D in (4, 9, 16, 64):
        vals = np.round(nprng.randn(D) * 5)
        for start, ln in ((0, D), (1, D - 1), (D // 2, D - D // 2)):
            full = np.zeros(D, complex)
            full[start:start + ln] = vals[start:start + ln]
            for shift in (-3, 1, 2, D + 1):
                want = np.fft.fft(np.roll(np.fft.ifft(full), shift))[start:start + ln]
                for dt in (np.float64, np.float32, np.int64):
                    for copy in (True, False):
                        arg = vals[start:start + ln].astype(dt)
                        keep = arg.copy()
                        got = util.circshift_fourier(arg, shift, start_idx=start, dft_size=D, copy=copy)
                        run.evaluations += 1
                        tol = 1e-9 if dt != np.float32 else 1e-3 * max(1.0, np.abs(want).max())
                        if got.shape != want.shape or not np.allclose(got, want, rtol=0, atol=tol):
                            run.violation({"kind": "circshift_random_spectrum_differs", "D": D, "shift": shift, "start": start, "len": ln,
                                           "dft_size": D, "copy": copy, "dtype": str(np.dtype(dt)), "what": "real-valued segment"})
                        elif copy and not np.array_equal(arg, keep):
                            run.violation({"kind": "circshift_modified_input", "D": D, "shift": shift, "copy": copy, "dtype": str(np.dtype(dt))})


def wrapped_segments(run, tier, nprng):
    """A spectrum segment may wrap past the end of the DFT (bin indices are taken modulo the DFT size).  For whole-sample
    shifts the result is the roll; for ANY shift - fractional ones too - the answer may not depend on how the same
    spectrum is presented: as the full array, or as a segment that wraps."""
    for D in ([4, 9, 64] if tier == "quick" else [4, 5, 9, 16, 64, 101, 512]):
        X = np.fft.fft(nprng.randn(D) + 1j * nprng.randn(D))
        for start, ln in ((D - 2, 4), (D - 1, 2), (D // 2, D), (1, D)):
            if ln > D:
                continue
            idx = (start + np.arange(ln)) % D
            seg = X[idx].copy()
            full = np.zeros(D, complex)
            full[idx] = seg
            for shift in (-3, 1, D + 2, 0.5, -2.5, 10.25, 1 / 3.0):
                for copy in (True, False):
                    got = util.circshift_fourier(seg.copy(), shift, start_idx=start, dft_size=D, copy=copy)
                    ref = util.circshift_fourier(full.copy(), shift, start_idx=0, dft_size=D, copy=True)
                    run.evaluations += 1
                    if got.shape != seg.shape or not np.allclose(got, ref[idx], rtol=0, atol=1e-9):
                        run.violation({"kind": "circshift_depends_on_how_the_spectrum_is_presented", "D": D, "start": start, "len": ln,
                                       "shift": shift, "copy": copy})
                    if float(shift).is_integer():
                        want = np.fft.fft(np.roll(np.fft.ifft(full), int(shift)))[idx]
                        if not np.allclose(got, want, rtol=0, atol=1e-9):
                            run.violation({"kind": "circshift_random_spectrum_differs", "D": D, "shift": shift, "start": start, "len": ln,
                                           "dft_size": D, "copy": copy, "dtype": "complex128", "what": "segment wrapping past the end of the DFT"})


def windows(run, tier, table):
    classes = {"bartlett": (filters.BartlettWindow, np.bartlett), "hann": (filters.HannWindow, np.hanning),
               "hamming": (filters.HammingWindow, np.hamming), "blackman": (filters.BlackmanWindow, np.blackman)}
    area = {(r["kind"], r["w"]): (r["num"], r["den"], r["len"]) for r in table["windows"]}
    widths = list(range(0, 65)) + ([100, 255, 256, 400, 1023, 4096] if tier == "quick" else list(range(65, 4097, 7)) + [4096])
    for kind, (cls, npf) in classes.items():
        for w in widths:
            got = cls().get_impulse_response(w)
            run.evaluations += 1
            if (kind, w) in area:
                num, den, ln = area[(kind, w)]
            else:  # beyond the exported table the same closed form, evaluated here
                m = max(1, w - 1)
                num, den, ln = {"bartlett": (m, 2), "hann": (m, 2), "hamming": (27 * m, 50), "blackman": (21 * m, 50)}[kind] + (w,)
            if got.shape != (ln,):
                run.violation({"kind": "window_length", "window": kind, "width": w, "shape": list(got.shape)})
                continue
            want = npf(w) / (num / den) if w > 0 else np.zeros(0)
            if not np.allclose(got, want, rtol=1e-12, atol=1e-15):
                run.violation({"kind": "window_not_numpy_shape_over_area", "window": kind, "width": w})
            if np.any(got < -1e-12):
                run.violation({"kind": "window_negative_sample", "window": kind, "width": w, "min": float(got.min())})
            if w >= 8 and abs(got.sum() - 1.0) > 3.0 / w:
                run.violation({"kind": "window_does_not_sum_to_one", "window": kind, "width": w, "sum": float(got.sum())})
    # (high orders on long windows too: t^(order-1) leaves the 64-bit integers long before it leaves the doubles)
    for order in (1, 2, 3, 4, 5, 8, 12, 16):
        for peak in (0.0, 0.25, 0.5, 0.75, 0.9):
            for w in [0, 1, 2, 3, 8, 10, 25, 100, 400, 1000] + ([] if tier == "quick" else list(range(11, 200, 3))):
                g = filters.GammaWindow(order=order, peak=peak).get_impulse_response(w)
                run.evaluations += 1
                if g.shape != (max(w, 0),):
                    run.violation({"kind": "gamma_window_length", "order": order, "peak": peak, "width": w, "shape": list(g.shape)})
                    continue
                if np.any(g < 0) or not np.all(np.isfinite(g)):
                    run.violation({"kind": "gamma_window_negative_or_nonfinite", "order": order, "peak": peak, "width": w})
                if w >= 2:
                    t = np.arange(w - 1, -1, -1, dtype=float)
                    if order > 1:
                        a = (order - 1) / (w - peak * w)
                        want = a ** order * t ** (order - 1) * np.exp(-a * t) / math.factorial(order - 1)
                        if not np.allclose(g, want, rtol=1e-9, atol=1e-300):
                            run.violation({"kind": "gamma_window_not_reversed_gamma_density", "order": order, "peak": peak, "width": w,
                                           "first_off": int(np.argwhere(~np.isclose(g, want, rtol=1e-9, atol=1e-300))[0][0])})
                    else:
                        # order 1: a decaying exponential in reversed time, its maximum (t = 0) is the last sample
                        r = g[:-1] / g[1:] if np.all(g[1:] > 0) else np.array([np.nan])
                        if not (g[-1] > 0 and int(np.argmax(g)) == w - 1 and np.allclose(r, r[0], rtol=1e-9) and r[0] < 1):
                            run.violation({"kind": "gamma_window_order1_not_exponential", "peak": peak, "width": w, "last": float(g[-1])})
                if order > 1 and w >= 8 and abs(int(np.argmax(g)) - peak * w) > 1.5:
                    run.violation({"kind": "gamma_window_peak_misplaced", "order": order, "peak": peak, "width": w, "argmax": int(np.argmax(g))})


def returned_arrays_are_the_callers(run):
    """A caller may scale or overwrite the array a window function returned (it is the caller's): the next call, on the same
    or on another instance, still returns the closed form."""
    for cls in (filters.HannWindow, filters.HammingWindow, filters.BartlettWindow, filters.BlackmanWindow, filters.GammaWindow):
        for w in (1, 8, 400):
            inst = cls()
            first = inst.get_impulse_response(w)
            want = first.copy()
            first *= 1234.5
            first[:] = -1.0
            run.evaluations += 1
            for other in (inst, cls()):
                again = other.get_impulse_response(w)
                if again.shape != want.shape or not np.array_equal(again, want):
                    run.violation({"kind": "window_depends_on_what_a_caller_did_to_an_earlier_result", "window": cls.__name__, "width": w})
                    break


def gamma_attributes(run):
    """order and peak are documented public attributes: the window follows their current values."""
    for (o1, p1, o2, p2) in ((4, 0.75, 2, 0.75), (4, 0.75, 6, 0.5), (2, 0.5, 5, 0.9), (3, 0.9, 3, 0.6)):
        for w in (10, 64, 400):
            g = filters.GammaWindow(order=o1, peak=p1)
            g.get_impulse_response(w)
            g.order, g.peak = o2, p2
            got = g.get_impulse_response(w)
            want = filters.GammaWindow(order=o2, peak=p2).get_impulse_response(w)
            t = np.arange(w - 1, -1, -1, dtype=float)
            a = (o2 - 1) / (w - p2 * w)
            closed = a ** o2 * t ** (o2 - 1) * np.exp(-a * t) / math.factorial(o2 - 1)
            run.evaluations += 1
            if not np.allclose(got, closed, rtol=1e-9, atol=1e-300) or not np.array_equal(got, want):
                run.violation({"kind": "gamma_window_ignores_current_attributes", "constructed": [o1, p1], "now": [o2, p2], "width": w})


def helpers(run):
    for rate in (8000.0, 16000.0, 44100.0, 1.0):
        for hz in (0.0, 1.0, 123.456, rate / 2, -50.0, 1e5):
            a = util.hertz_to_angular(hz, rate)
            back = util.angular_to_hertz(a, rate)
            run.evaluations += 1
            if not math.isclose(back, hz, rel_tol=1e-12, abs_tol=1e-9):
                run.violation({"kind": "hertz_angular_not_inverse", "hz": hz, "rate": rate, "back": back})
            if not math.isclose(a, 2 * math.pi * hz / rate, rel_tol=1e-12, abs_tol=1e-15):
                run.violation({"kind": "hertz_to_angular_formula", "hz": hz, "rate": rate})
    # gauss_quant: increasing, affine in mu / std, inverse of the normal CDF (erfc from the standard library)
    near_half = [0.5 + sg * d for sg in (-1, 1) for d in (1e-9, 1e-7, 1e-6, 3e-6, 4.5e-6, 1e-5, 1e-4, 1e-3, 1e-2)]
    ps = sorted(set([10.0 ** e for e in range(-20, 0)] + [0.2, 0.3, 0.4, 0.5] + [1 - 10.0 ** e for e in range(-12, 0)] + [0.6, 0.7, 0.8]
                    + near_half))
    prev = None
    for p in ps:
        z = util.gauss_quant(p)
        run.evaluations += 1
        if prev is not None and not z > prev:
            run.violation({"kind": "gauss_quant_not_increasing", "p": p, "z": z, "prev": prev})
        prev = z
        zz = util.gauss_quant(p, mu=3.0, std=2.0)
        if not math.isclose(zz, 3.0 + 2.0 * z, rel_tol=1e-12, abs_tol=1e-12):
            run.violation({"kind": "gauss_quant_not_affine", "p": p})
        cdf = 0.5 * math.erfc(-z / math.sqrt(2.0))
        pdf = math.exp(-0.5 * z * z) / math.sqrt(2 * math.pi)
        if min(p, 1 - p) >= 1e-20 and p < 1 - 1e-13:
            errz = abs(cdf - p) / max(pdf, 1e-300)
            if errz > 1e-6:
                run.violation({"kind": "gauss_quant_inaccurate", "p": p, "z": z, "error_in_std": errz})


def gauss_quant_far_tail(run):
    """Probabilities below the 1e-20 the rational approximation is specified for: whatever value is returned there (the
    library saturates) lies on the lower side and not above the quantile of 1e-20 - the function does not turn round."""
    z20 = util.gauss_quant(1e-20)
    for p in (9.9e-21, 1e-21, 1e-30, 1e-300, 5e-324):
        for (mu, std) in ((0.0, 1.0), (3.0, 2.0)):
            z = util.gauss_quant(p, mu=mu, std=std)
            run.evaluations += 1
            if not (z <= mu + std * z20 and z < mu):
                run.violation({"kind": "gauss_quant_not_increasing", "p": p, "z": z, "prev": mu + std * z20, "mu": mu, "std": std,
                               "what": "a probability below 1e-20 maps above the quantile of 1e-20"})


def run(tier, seed):
    run = common.Run("C20", tier, seed)
    nprng = np.random.RandomState(seed)
    table, r = export(tier)
    if table is None:
        run.violation({"kind": "model_" + r.violated, "module": "Circshift", "detail": r.errtext[-2000:]})
        return run.finish()
    ncases = next((common.parse_tla_tuple(t) for t in r.tuples if t.startswith('<<"CASES"')), [None, 0, 0])
    # constant-level evaluation: count the evaluated cases as the "states" of this specification
    run.states += int(ncases[1])
    run.transitions += int(ncases[1])
    run.tlc_runs.append({"module": "Circshift", "cases_evaluated": int(ncases[1]), "wall_s": round(r.wall, 2)})
    rc = common.tlc("Circshift", "Circshift_canary.cfg", workers=1, env={"OUT_FILE": ""}, timeout=600)
    if not rc.violated:
        raise common.MachineryError("canary: mod-before-default order was not refuted")
    run.extra.setdefault("canaries", []).append({"module": "Circshift", "variant": "OrderRule=mod_first", "refuted_by": rc.violated})
    replay_cases(run, table, nprng)
    run.traces += len(table["cases"])
    random_spectra(run, tier, nprng)
    wrapped_segments(run, tier, nprng)
    real_valued_segments(run, tier, nprng)
    windows(run, tier, table)
    gamma_attributes(run)
    returned_arrays_are_the_callers(run)
    helpers(run)
    gauss_quant_far_tail(run)
    run.exhaustive = True
    run.not_decided += ["'sums to 1 up to O(1/width)' and gauss_quant's 1e-6 accuracy are statements of real analysis: not in the "
                        "specification; evaluated numerically by the harness (|sum-1| <= 3/width; error against math.erfc)"]
    run.extra["rule"] = "every (D<=%s, p, shift in -2D..2D, start, len, dft_size given/defaulted) evaluated by TLC; exported cases replayed with both copy flags" % ("7" if tier == "quick" else "10")
    return run.finish()


def replay(path):
    print(json.dumps(json.load(open(path)), indent=1)[:3000])
    return 0
