"""X01 (beyond the listed properties)  corpus.post_process_wrapper applies the configured
post-processors to the documented sub-batch, in order, along the documented axis.

S  CorpusWrap.tla (constant level): for every shape of the `postprocessors` / `postprocess_axis`
   arguments (sequence / mapping; int / sequence / mapping, absent keys) and 1 or 2 sub-batches,
   which (processor, axis) pairs hit which sub-batch; documentation consequences as ASSUMEs.
B  spec -> code: every exported row replayed on the real wrapper around a stub Data class, with
   recording post-processors registered under throw-away aliases.
"""
import json
import os
import shutil
import tempfile

import numpy as np

import common
from pydrobert.speech import corpus, post

LOG = []


def mk(name):
    class Rec(post.PostProcessor):
        aliases = {"verif-" + name}

        def apply(self, features, axis=-1, in_place=False):
            LOG.append((int(features[0]), name, axis))
            return features
    Rec.__name__ = "Rec_" + name
    return Rec


class FakeData:
    """The part of pydrobert.kaldi.io.corpus.Data the wrapper relies on."""

    def __init__(self, table, *additional, num_sub=1, batches=(), **kwargs):
        if kwargs:
            raise TypeError("unexpected keyword arguments reached the wrapped class: %s" % sorted(kwargs))
        self.num_sub = num_sub
        self._batches = batches

    def batch_generator(self, repeat=False):
        for b in self._batches:
            yield b


def run(tier, seed):
    run = common.Run("X01", tier, seed)
    d = tempfile.mkdtemp(prefix="verif_cw_")
    try:
        out = os.path.join(d, "t.json")
        r = common.tlc("CorpusWrap", "CorpusWrap.cfg", workdir=d, workers=1, env={"OUT_FILE": out}, timeout=300)
        if r.violated:
            run.violation({"kind": "model_" + r.violated, "module": "CorpusWrap"})
            return run.finish()
        rows = json.load(open(out))
    finally:
        shutil.rmtree(d, ignore_errors=True)
    run.states += len(rows)
    run.transitions += len(rows)
    classes = [mk(n) for n in ("p", "q", "r")]
    try:
        Wrapped = corpus.post_process_wrapper(FakeData)
        for row in rows:
            pa, aa, n = row["procs"], row["axes"], row["num_sub"]
            procs = ["verif-" + x for x in pa["seq"]] if pa["kind"] == "seq" else {k: ["verif-" + x for x in v] for k, v in enumerate(pa["map"])}
            if aa["kind"] == "int":
                axes = aa["val"]
            elif aa["kind"] == "seq":
                axes = list(aa["seq"])
            else:
                axes = {k: list(v) for k, v in enumerate(aa["map"]) if v != [-99]}
            # two batches; sub-batch k of batch b is an array whose first element identifies it
            if n == 1:
                batches = [np.array([10.0, 1.0]), np.array([20.0, 2.0])]
            else:
                batches = [(np.array([10.0, 0.0]), np.array([11.0, 0.0])), (np.array([20.0, 0.0]), np.array([21.0, 0.0]))]
            del LOG[:]
            run.evaluations += 1
            try:
                w = Wrapped("table", num_sub=n, batches=batches, postprocessors=procs, postprocess_axis=axes)
                got = list(w.batch_generator())
            except Exception as e:
                run.violation({"kind": "wrapper_raised", "row": row, "error": repr(e)})
                continue
            want = []
            for b in (10, 20):
                for k in range(n):
                    for (name, axis) in row["applied"][k]:
                        want.append((b + k, name, axis))
            if LOG != want:
                run.violation({"kind": "wrong_processor_subbatch_or_axis", "row": row, "observed": LOG[:8], "specified": want[:8]})
            if len(got) != 2:
                run.violation({"kind": "batches_lost", "row": row})
    finally:
        for c in classes:
            c.aliases = set()
    run.traces += len(rows)
    run.exhaustive = True
    run.sample(rows[100])
    run.extra["rule"] = "every row of CorpusWrap's table (argument shapes x 1-2 sub-batches) replayed"
    return run.finish()


def replay(path):
    print(json.dumps(json.load(open(path)), indent=1)[:2000])
    return 0
