"""Shared machinery for the /verif checks.

* run TLC (exhaustive / simulate / trace validation), parse its statistics,
  per-action coverage and exported lines;
* write evidence files (EVIDENCE.schema.json, level model_checking);
* report violations: every violation is a structured record, written to a
  replay file; it is matched against /verif/known_findings.jsonl (read-only at
  run time) and printed either as KNOWN-FINDING or as VIOLATION;
* exit codes: 0 held / 1 violation / 2 machinery failure.
"""
import hashlib
import json
import os
import re
import shutil
import subprocess
import sys
import tempfile
import time

VERIF = os.path.dirname(os.path.dirname(os.path.abspath(__file__)))
SPEC = os.path.join(VERIF, "spec")
EVID = os.path.join(VERIF, "evidence")
REPLAYS = os.path.join(VERIF, "replays")
KNOWN = os.path.join(VERIF, "known_findings.jsonl")
TLA_JAR = "/opt/veriftools/tla/tla2tools.jar"
TLA_CP = TLA_JAR + ":/opt/veriftools/tla/CommunityModules-deps.jar"
REPO_SRC = os.environ.get("VERIF_REPO_SRC", "/repo/src")
GUARD = "PYDROBERT_SPEECH_VERIF"


class MachineryError(Exception):
    pass


def repo_on_path():
    """Make the repository's *working tree* the imported package."""
    if REPO_SRC not in sys.path:
        sys.path.insert(0, REPO_SRC)
    os.environ[GUARD] = "1"
    import pydrobert.speech as s  # noqa

    got = os.path.realpath(os.path.dirname(os.path.dirname(os.path.dirname(s.__file__))))
    if got != os.path.realpath(REPO_SRC):
        raise MachineryError("pydrobert.speech imported from %s, not %s" % (got, REPO_SRC))


# --------------------------------------------------------------------------
# TLC
# --------------------------------------------------------------------------
class TlcResult:
    def __init__(self):
        self.ok = False
        self.generated = 0
        self.distinct = 0
        self.exported = []  # parsed JSON objects printed by the spec
        self.tuples = []  # raw <<...>> lines printed by PrintT
        self.violated = None  # name of violated invariant / property
        self.errtext = ""
        self.coverage = {}  # action -> (distinct, total)
        self.wall = 0.0
        self.stdout = ""
        self.cmd = ""
        self.depth = 0


_RE_STATES = re.compile(r"(\d+) states generated, (\d+) distinct states found")
_RE_INV = re.compile(r"Invariant (\S+) is violated")
_RE_PROP = re.compile(r"(?:Action|Temporal) propert(?:y|ies) (\S+)? ?(?:is|were) violated")
_RE_COV = re.compile(r"^<(\w+) line \d+, col \d+ to line \d+, col \d+ of module (\w+)>: (\d+):(\d+)")
_RE_ASSUME = re.compile(r"Assumption line (\d+), col \d+ to line \d+, col \d+ of module (\w+) is false")
_RE_DEPTH = re.compile(r"The depth of the complete state graph search is (\d+)")


def tlc(module, cfg=None, workdir=None, workers=None, extra=(), env=None, timeout=1800,
        simulate=None, depth=None, seed=None, coverage=False, deadlock=False, jvm=(), dump_actions=False):
    """Run TLC on spec/<module>.tla with spec/<cfg>.  Returns TlcResult.

    A TLC run that finds an invariant violation returns normally with
    .violated set; anything else that is not a clean run raises
    MachineryError.
    """
    own = workdir is None
    if own:
        workdir = tempfile.mkdtemp(prefix="verif_tlc_")
    meta = os.path.join(workdir, "meta")
    os.makedirs(meta, exist_ok=True)
    cfg = cfg or (module + ".cfg")
    cmd = ["java", "-XX:+UseParallelGC", "-Xss16m"] + list(jvm) + ["-cp", TLA_CP, "tlc2.TLC",
           "-metadir", meta, "-noGenerateSpecTE", "-config", os.path.join(SPEC, cfg)]
    if workers is None:
        workers = "auto"
    cmd += ["-workers", str(workers)]
    if simulate is not None:
        cmd += ["-simulate", simulate]
        if depth:
            cmd += ["-depth", str(depth)]
    if seed is not None:
        cmd += ["-seed", str(seed)]
    if coverage:
        cmd += ["-coverage", "1"]
    if deadlock:
        cmd += ["-deadlock"]
    if dump_actions:
        cmd += ["-dump", "dot,actionlabels", os.path.join(workdir, "graph")]
    cmd += list(extra)
    cmd += [os.path.join(SPEC, module + ".tla")]
    e = dict(os.environ)
    if env:
        e.update(env)
    t0 = time.time()
    try:
        p = subprocess.run(cmd, cwd=SPEC, env=e, stdout=subprocess.PIPE, stderr=subprocess.STDOUT,
                           timeout=timeout, text=True)
    except subprocess.TimeoutExpired:
        subprocess.run(["pkill", "-f", "tlc2[.]TLC.*" + re.escape(meta)], check=False)
        raise MachineryError("TLC timed out after %ss: %s" % (timeout, module))
    finally:
        pass
    r = TlcResult()
    r.wall = time.time() - t0
    r.stdout = p.stdout
    r.cmd = " ".join(cmd)
    for line in p.stdout.splitlines():
        m = _RE_STATES.search(line)
        if m:
            r.generated, r.distinct = int(m.group(1)), int(m.group(2))
        m = _RE_INV.search(line)
        if m:
            r.violated = m.group(1)
        m = _RE_PROP.search(line)
        if m and not r.violated:
            r.violated = m.group(1) or "temporal"
        m = _RE_ASSUME.search(line)
        if m and not r.violated:
            r.violated = "assumption_line_%s_of_%s" % (m.group(1), m.group(2))
        m = _RE_COV.match(line)
        if m:
            name = m.group(1)
            d, t = int(m.group(3)), int(m.group(4))
            od, ot = r.coverage.get(name, (0, 0))
            r.coverage[name] = (max(od, d), max(ot, t))
        m = _RE_DEPTH.search(line)
        if m:
            r.depth = int(m.group(1))
        s = line.strip()
        if s.startswith('"') and s.endswith('"') and len(s) > 1:
            try:
                inner = json.loads(s)
                if isinstance(inner, str) and inner[:1] in "{[":
                    r.exported.append(json.loads(inner))
            except ValueError:
                pass
        elif s.startswith("<<") and s.endswith(">>"):
            r.tuples.append(s)
    if dump_actions and os.path.exists(os.path.join(workdir, "graph.dot")):
        lab = re.compile(r'label="(\w+)"')
        with open(os.path.join(workdir, "graph.dot")) as f:
            for line in f:
                if "->" in line:
                    m = lab.search(line)
                    if m:
                        od, ot = r.coverage.get(m.group(1), (0, 0))
                        r.coverage[m.group(1)] = (od, ot + 1)
    clean = "Model checking completed. No error has been found." in p.stdout or \
            (simulate is not None and ("Finished in" in p.stdout or "The number of states generated" in p.stdout))
    if r.violated:
        r.ok = False
        r.errtext = _tail(p.stdout)
    elif clean and p.returncode == 0:
        r.ok = True
    else:
        if own:
            shutil.rmtree(workdir, ignore_errors=True)
        lines_ = p.stdout.split("\n")
        i0 = next((i for i, l in enumerate(lines_) if l.startswith("Error:")), 0)
        first = lines_[i0:i0 + 6]
        raise MachineryError("TLC failed on %s (rc=%s): %s\n%s" % (module, p.returncode, " | ".join(first), _tail(p.stdout, 60)))
    if own:
        shutil.rmtree(workdir, ignore_errors=True)
    return r


def _tail(s, n=40):
    return "\n".join(s.splitlines()[-n:])


def parse_tla_tuple(s):
    """Parse a TLC-printed value made of <<>>, {}, ints, strings, TRUE/FALSE and
    records [a |-> 1] into Python (tuples -> lists, sets -> lists)."""
    pos = [0]

    def ws():
        while pos[0] < len(s) and s[pos[0]] in " \n\t":
            pos[0] += 1

    def val():
        ws()
        if s.startswith("<<", pos[0]):
            pos[0] += 2
            out = []
            ws()
            if s.startswith(">>", pos[0]):
                pos[0] += 2
                return out
            while True:
                out.append(val())
                ws()
                if s.startswith(">>", pos[0]):
                    pos[0] += 2
                    return out
                assert s[pos[0]] == ",", s[pos[0]:pos[0] + 20]
                pos[0] += 1
        if s[pos[0]] == "{":
            pos[0] += 1
            out = []
            ws()
            if s[pos[0]] == "}":
                pos[0] += 1
                return out
            while True:
                out.append(val())
                ws()
                if s[pos[0]] == "}":
                    pos[0] += 1
                    return out
                pos[0] += 1
        if s[pos[0]] == "[":
            pos[0] += 1
            out = {}
            while True:
                ws()
                m = re.match(r"(\w+)\s*\|->", s[pos[0]:])
                pos[0] += m.end()
                out[m.group(1)] = val()
                ws()
                if s[pos[0]] == "]":
                    pos[0] += 1
                    return out
                pos[0] += 1
        if s[pos[0]] == '"':
            e = s.index('"', pos[0] + 1)
            v = s[pos[0] + 1:e]
            pos[0] = e + 1
            return v
        m = re.match(r"-?\d+|TRUE|FALSE", s[pos[0]:])
        pos[0] += m.end()
        t = m.group(0)
        return True if t == "TRUE" else False if t == "FALSE" else int(t)

    return val()


def sany_ok(module):
    p = subprocess.run(["java", "-cp", TLA_CP, "tla2sany.SANY", os.path.join(SPEC, module + ".tla")],
                       cwd=SPEC, stdout=subprocess.PIPE, stderr=subprocess.STDOUT, text=True)
    return p.returncode == 0 and "Semantic errors" not in p.stdout and "***Parse Error***" not in p.stdout, p.stdout



def apalache(module, init, inv, length, timeout=300):
    """Runs apalache-mc check on spec/<module>.tla.  Returns 'ok', 'violated' or 'not_attempted:<why>'
    (a stall or a tool problem is never a failure of the property)."""
    d = tempfile.mkdtemp(prefix="verif_apa_")
    try:
        cmd = ["apalache-mc", "check", "--cinit=ConstInit", "--init=" + init, "--inv=" + inv, "--length=%d" % length,
               "--out-dir=" + d, os.path.join(SPEC, module + ".tla")]
        try:
            p = subprocess.run(cmd, cwd=d, stdout=subprocess.PIPE, stderr=subprocess.STDOUT, text=True, timeout=timeout)
        except subprocess.TimeoutExpired:
            return "not_attempted:timeout"
        except OSError as e:
            return "not_attempted:%r" % (e,)
        if "EXITCODE: OK" in p.stdout and "NoError" in p.stdout:
            return "ok"
        if "invariant" in p.stdout and "violated" in p.stdout:
            return "violated"
        return "not_attempted:" + p.stdout[-200:].replace("\n", " ")
    finally:
        shutil.rmtree(d, ignore_errors=True)

def tlaps(module, timeout=600):
    """Runs the TLA+ proof system on spec/<module>.tla (in a scratch copy: tlapm writes a cache next to the file).
    Returns ('ok', n_obligations) | ('failed', detail) | ('not_attempted', why)."""
    d = tempfile.mkdtemp(prefix="verif_tlaps_")
    try:
        for f in os.listdir(SPEC):
            if f.endswith(".tla"):
                shutil.copy(os.path.join(SPEC, f), d)
        try:
            p = subprocess.run(["tlapm", "--threads", "8", module + ".tla"], cwd=d, stdout=subprocess.PIPE, stderr=subprocess.STDOUT,
                               text=True, timeout=timeout)
        except subprocess.TimeoutExpired:
            return "not_attempted", "timeout"
        except OSError as e:
            return "not_attempted", repr(e)
        m = re.search(r"All (\d+) obligations? proved", p.stdout)
        if m:
            return "ok", int(m.group(1))
        m = re.search(r"(\d+)/(\d+) obligations failed", p.stdout)
        if m:
            return "failed", m.group(0)
        return "not_attempted", p.stdout[-300:].replace("\n", " ")
    finally:
        shutil.rmtree(d, ignore_errors=True)


# --------------------------------------------------------------------------
# batched trace validation
# --------------------------------------------------------------------------
def validate_traces(trace_module, cfg, traces, timeout=1800, env=None, jvm=("-Xmx3g",)):
    """traces: list of dicts (each must carry 'tid').  Writes an ndjson file, runs
    the trace spec with -workers 1.  Returns (rejected, result) where rejected is a
    list of (tid, line, clause)."""
    d = tempfile.mkdtemp(prefix="verif_tr_")
    try:
        path = os.path.join(d, "traces.ndjson")
        with open(path, "w") as f:
            for t in traces:
                f.write(json.dumps(t, separators=(",", ":")) + "\n")
        e = {"TRACE_FILE": path}
        if env:
            e.update(env)
        r = tlc(trace_module, cfg, workdir=d, workers=1, env=e, timeout=timeout, jvm=jvm)
        rejected = []
        for t in r.tuples:
            v = parse_tla_tuple(t)
            if v and v[0] == "REJECTED":
                rejected.append(tuple(v[1:]))
        done = [parse_tla_tuple(t) for t in r.tuples if t.startswith('<<"DONE"')]
        if r.violated:
            return rejected, r
        if not done:
            raise MachineryError("trace validation did not reach the end of the batch:\n" + _tail(r.stdout))
        if done[-1][1] != len(traces):
            raise MachineryError("trace validation consumed %s of %s traces" % (done[-1][1], len(traces)))
        return rejected, r
    finally:
        shutil.rmtree(d, ignore_errors=True)



def validate_traces_parallel(trace_module, cfg, traces, shards=8, timeout=1800, env=None):
    """Split a batch over several TLC processes (each -workers 1)."""
    from concurrent.futures import ThreadPoolExecutor
    if not traces:
        raise MachineryError("no traces to validate")
    shards = max(1, min(shards, (len(traces) + 199) // 200))
    parts = [traces[i::shards] for i in range(shards)]
    with ThreadPoolExecutor(max_workers=shards) as ex:
        futs = [ex.submit(validate_traces, trace_module, cfg, part, timeout, env) for part in parts]
        res = [f.result() for f in futs]
    rejected = []
    agg = TlcResult()
    agg.ok = True
    for rej, r in res:
        rejected.extend(rej)
        agg.generated += r.generated
        agg.distinct += r.distinct
        agg.wall = max(agg.wall, r.wall)
        if r.violated and not agg.violated:
            agg.violated, agg.errtext = r.violated, r.errtext
    return rejected, agg


def assert_binding_live(run, trace_module, cfg, trace, corrupt, what):
    """Demonstrates on every run that the trace specification constrains the recorded fields: a copy of a trace the
    specification accepted, with one field corrupted, must be rejected.  Otherwise the binding is vacuous: exit 2."""
    import copy
    bad = copy.deepcopy(trace)
    corrupt(bad)
    rej, r = validate_traces(trace_module, cfg, [bad])
    if not rej and not r.violated:
        raise MachineryError("binding not live: %s accepted a trace with %s" % (trace_module, what))
    run.extra.setdefault("binding_selftests", []).append({"trace_spec": trace_module, "corruption": what, "rejected_at": list(rej[0]) if rej else str(r.violated)})

# --------------------------------------------------------------------------
# known findings
# --------------------------------------------------------------------------
LAYOUTS = ("contig", "strided", "fortran", "bigendian", "negstride")


def relayout(x, kind):
    """The same array values in another memory layout (numpy arrays are legal arguments in any of them):
    a view with stride 2 on every axis, Fortran order, the opposite byte order, negative strides."""
    import numpy as np
    if kind == "contig":
        return np.ascontiguousarray(x).copy()
    if kind == "strided":
        big = np.zeros(tuple(2 * s for s in x.shape), dtype=x.dtype)
        sl = tuple(slice(None, None, 2) for _ in x.shape)
        big[sl] = x
        return big[sl]
    if kind == "fortran":
        return np.asfortranarray(x).copy(order="F")
    if kind == "bigendian":
        if x.dtype.itemsize == 1:
            return x.copy()
        return x.astype(x.dtype.newbyteorder(">" if x.dtype.byteorder in ("=", "<", "|") else "<"))
    if kind == "negstride":
        sl = tuple(slice(None, None, -1) for _ in x.shape)
        return np.ascontiguousarray(x[sl])[sl]
    raise ValueError(kind)


def load_known():
    out = []
    if os.path.exists(KNOWN):
        for line in open(KNOWN):
            line = line.strip()
            if line and not line.startswith("#"):
                out.append(json.loads(line))
    return out


# The implementation-shaped trace specifications (TraceStftCount.ImplOK, TraceSi, TraceSiCount) are told the fill
# counters the code keeps in private attributes.  Those are not part of any property: a tree that represents its
# streaming state differently simply has no such layer to validate (zeros are logged, the resulting divergences are
# informational as always, and the run says so).
PRIVATE_STATE_MISSING = set()


def stft_priv(c):
    try:
        return {"bl": int(c._buf_len), "ff": bool(c._first_frame)}
    except AttributeError:
        PRIVATE_STATE_MISSING.add("STFT (_buf_len, _first_frame)")
        return {"bl": 0, "ff": False}


def si_priv(c):
    try:
        return {"skip": int(c._skip), "xRem": int(c._x_rem), "yRem": int(c._y_rem)}
    except AttributeError:
        PRIVATE_STATE_MISSING.add("SI (_skip, _x_rem, _y_rem)")
        return {"skip": 0, "xRem": 0, "yRem": 0}


class Run:
    """One check run: collects coverage numbers, violations, writes evidence."""

    def __init__(self, prop, tier, seed, matchers=None):
        self.prop = prop
        self.tier = tier
        self.seed = seed
        self.t0 = time.time()
        self.states = 0
        self.transitions = 0
        self.traces = 0
        self.evaluations = 0
        self.samples = []
        self.cov = {}
        self.extra = {}
        self.assumptions = []
        self.violations = []
        self.known_seen = {}
        self.matchers = matchers or {}
        self.known = [k for k in load_known() if k["property"] == prop and k.get("status") == "known"]
        self.tlc_runs = []
        self.not_decided = []
        # replay files of earlier runs of this property are stale
        shutil.rmtree(os.path.join(REPLAYS, prop), ignore_errors=True)
        self.exhaustive = None

    def add_tlc(self, name, r, need_actions=()):
        self.states += r.distinct
        self.transitions += r.generated
        self.tlc_runs.append({"module": name, "distinct_states": r.distinct, "states_generated": r.generated,
                              "wall_s": round(r.wall, 2), "depth": r.depth})
        for a, (d, t) in r.coverage.items():
            od, ot = self.cov.get(a, (0, 0))
            self.cov[a] = (od + d, ot + t)
        for a in need_actions:
            if r.coverage.get(a, (0, 0))[1] == 0:
                raise MachineryError("vacuous TLC run: action %s of %s never taken" % (a, name))

    def sample(self, s, cap=6):
        if len(self.samples) < cap:
            self.samples.append(s)

    def violation(self, record):
        """record: dict with at least 'kind' and whatever identifies the failing
        case.  Matched against known findings; otherwise a VIOLATION."""
        record = dict(record)
        record["property"] = self.prop
        for k in self.known:
            m = self.matchers.get(k.get("matcher"))
            if m is not None and m(record, k.get("params", {})):
                ent = self.known_seen.setdefault(k["id"], {"count": 0, "what": k["what"], "example": record})
                ent["count"] += 1
                return False
        self.violations.append(record)
        return True

    def finish(self):
        os.makedirs(EVID, exist_ok=True)
        if PRIVATE_STATE_MISSING:
            self.extra["private_state_not_found"] = sorted(PRIVATE_STATE_MISSING)
            print("NOTE %s: private streaming state not found (%s): implementation-shaped trace layer not applicable to this tree"
                  % (self.prop, "; ".join(sorted(PRIVATE_STATE_MISSING))))
        for kid, ent in self.known_seen.items():
            print("KNOWN-FINDING: property=%s %s [%s; %d occurrence(s) this run]" % (self.prop, ent["what"], kid, ent["count"]))
        rc = 0
        shown = 0
        if self.violations:
            os.makedirs(os.path.join(REPLAYS, self.prop), exist_ok=True)
            seen_kinds = {}
            for v in self.violations:
                key = v.get("kind", "?")
                seen_kinds.setdefault(key, []).append(v)
            for kind, vs in seen_kinds.items():
                v = vs[0]
                blob = json.dumps(v, sort_keys=True, default=str)
                h = hashlib.sha1(blob.encode()).hexdigest()[:12]
                path = os.path.join(REPLAYS, self.prop, "%s_%s.json" % (kind, h))
                v2 = dict(v)
                v2["same_kind_count"] = len(vs)
                with open(path, "w") as f:
                    json.dump(v2, f, indent=1, sort_keys=True, default=str)
                print("VIOLATION property=%s replay=%s" % (self.prop, path))
                print("  kind=%s (%d case(s)); first: %s" % (kind, len(vs), blob[:600]))
                shown += 1
            rc = 1
        cov = {
            "states": int(self.states),
            "transitions": int(self.transitions),
            "traces_validated_against_impl": int(self.traces),
            "samples": self.samples or ["(none)"],
            "evaluations": int(self.evaluations),
            "tlc_runs": self.tlc_runs,
            "coverage_by_action": {a: {"distinct": d, "taken": t} for a, (d, t) in sorted(self.cov.items())},
            "known_findings_seen": {k: v["count"] for k, v in self.known_seen.items()},
            "not_decided": self.not_decided,
        }
        if self.exhaustive is not None:
            cov["exhaustive"] = bool(self.exhaustive)
        cov.update(self.extra)
        ev = {
            "property_id": self.prop,
            "tier": self.tier,
            "seed": int(self.seed),
            "level": "model_checking",
            "coverage": cov,
            "assumptions": self.assumptions,
            "wall_s": round(time.time() - self.t0, 2),
            "violations": len(self.violations),
        }
        with open(os.path.join(EVID, self.prop + ".json"), "w") as f:
            json.dump(ev, f, indent=1, default=str)
        print("%s tier=%s: states=%d transitions=%d traces_validated=%d evaluations=%d violations=%d known=%d wall=%.1fs" % (
            self.prop, self.tier, self.states, self.transitions, self.traces, self.evaluations,
            len(self.violations), sum(v["count"] for v in self.known_seen.values()), time.time() - self.t0))
        return rc
