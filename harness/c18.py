"""C18  Pre-processors apply the documented sample-wise transforms.

S  TLC: PreOps.tla - heap of arrays, Preemphasize.apply as the code shapes it
   (which object is worked on / returned), against the recurrence, dtype and
   input-untouched clauses, for every small array, dtype, coefficient, in_place
   and up to 3 calls on a shared heap; the consequences of the dither law.
B  code -> spec: random call sequences on real arrays (integer-valued data and
   coefficients, so float64 is exact), object identities tracked, every array
   the harness holds snapshotted after every call, validated by TracePreOps.
   Then exact (bitwise) comparison with the float64 recurrence for fractional
   coefficients, all dtypes, both in_place settings, read-only inputs; the
   dither law on the real Dither.
"""
import json
import random
import os
import warnings

import numpy as np

import common
from pydrobert.speech import pre

DT = {"f8": np.float64, "f4": np.float32, "f2": np.float16, "i2": np.int16, "i4": np.int32}


def record(run, tier, rng):
    traces = []
    ntr = 400 if tier == "quick" else 3000
    for tid in range(1, ntr + 1):
        dt0 = rng.choice(list(DT))
        n0 = rng.choice([0, 1, 2, 3, 4, 6])
        objs = [np.array([rng.randint(-3, 3) for _ in range(n0)], dtype=DT[dt0])]
        dts = [dt0]

        def snap():
            return [{"dt": d, "vals": [int(v) for v in o]} for d, o in zip(dts, objs)]
        init = snap()
        events = []
        for _ in range(rng.randint(1, 4)):
            src = rng.randrange(len(objs))
            c = rng.choice([-2, -1, 0, 1, 2])
            ip = rng.random() < 0.5
            ro = (not ip) and rng.random() < 0.5
            objs[src].flags.writeable = not ro
            err = ""
            try:
                out = pre.Preemphasize(c).apply(objs[src], in_place=ip)
            except Exception as e:
                err = type(e).__name__
                out = None
            objs[src].flags.writeable = True
            ev = {"src": src + 1, "c": c, "ip": ip, "err": err, "ret": 0, "heap": []}
            if out is not None:
                idx = next((i for i, o in enumerate(objs) if o is out), None)
                if idx is None:
                    objs.append(out)
                    dts.append({np.dtype(v): k for k, v in DT.items()}.get(out.dtype, str(out.dtype)))
                    idx = len(objs) - 1
                ev["ret"] = idx + 1
                ev["heap"] = snap()
            events.append(ev)
            run.evaluations += 1
            if err:
                break
        traces.append({"tid": tid, "init": init, "events": events})
    rejected, tr = common.validate_traces_parallel("TracePreOps", "TracePreOps.cfg", traces, shards=6)
    run.traces += len(traces)
    run.states += tr.distinct
    run.transitions += tr.generated
    byid = {t["tid"]: t for t in traces}
    for (tid, line, clause) in rejected:
        if clause == "harness_bookkeeping":
            raise common.MachineryError("trace bookkeeping inconsistent in trace %d" % tid)
        run.violation({"kind": "preemph_trace_rejected_" + clause, "clause": clause, "event": line, "trace": byid[tid]})
    run.sample(traces[3])
    if not rejected:
        victim = next(t for t in traces if t["events"] and t["events"][0]["heap"] and t["events"][0]["heap"][-1]["vals"])

        def corrupt(t):
            t["events"][0]["heap"][-1]["vals"][0] += 1
        common.assert_binding_live(run, "TracePreOps", "TracePreOps.cfg", victim, corrupt, "one returned sample changed")


def exact_float(run, tier, nprng):
    """Fractional coefficients: bitwise equality with the documented float64 recurrence, cast back."""
    for dt in list(DT.values()) + [np.longdouble]:
        # (lengths around 2^16 and 2^17 too: the recurrence has no block structure)
        for n in (0, 1, 2, 3, 5, 6, 1000, 65537, 65538, 131075, 200003):
            for coeff in (0.97, 0.5, -0.3, 1.0 / 3.0) if n <= 1000 else (0.97,):
                if np.issubdtype(dt, np.integer):
                    x = nprng.randint(-3000, 3000, size=n).astype(dt)
                    if n >= 6 and np.dtype(dt).kind == "i":
                        # (the extreme values of the type at places where the result is exactly that value again: first
                        # sample, and right after a zero)
                        x[0], x[2], x[3], x[4], x[5] = np.iinfo(dt).min, 0, np.iinfo(dt).min, 0, np.iinfo(dt).max
                else:
                    x = (nprng.randn(n) * 100).astype(dt)
                x64 = x.astype(np.float64)
                want64 = x64.copy()
                if n <= 1000:
                    for i in range(1, n):
                        want64[i] = x64[i] - coeff * x64[i - 1]
                else:
                    want64[1:] = x64[1:] - coeff * x64[:-1]  # (two IEEE operations per sample, as in the loop above)
                with warnings.catch_warnings():
                    warnings.simplefilter("ignore")
                    want = want64.astype(dt)
                for ip in (False, True):
                    layout = common.LAYOUTS[(n + ip + np.dtype(dt).itemsize) % len(common.LAYOUTS)] if n <= 1000 else "contig"
                    arg = common.relayout(x, layout)
                    if not ip:
                        arg.flags.writeable = False
                    try:
                        with warnings.catch_warnings():
                            warnings.simplefilter("ignore")
                            got = pre.Preemphasize(coeff).apply(arg, in_place=ip)
                    except Exception as e:
                        run.violation({"kind": "preemph_raised", "dtype": str(np.dtype(dt)), "n": n, "coeff": coeff, "in_place": ip, "error": repr(e)})
                        continue
                    run.evaluations += 1
                    # ("cast back to the input dtype": the very dtype of the array handed in, byte order included)
                    if got.dtype != arg.dtype or got.shape != want.shape or (
                            # (the padding bytes of an 80-bit long double are not part of its value)
                            not np.array_equal(got, want) if dt is np.longdouble else got.astype(dt).tobytes() != want.tobytes()):
                        bad = int(np.sum(got != want)) if got.shape == want.shape else -1
                        run.violation({"kind": "preemph_not_float64_recurrence_cast_back", "dtype": str(np.dtype(dt)), "n": n, "coeff": coeff,
                                       "in_place": ip, "layout": layout, "result_dtype": str(got.dtype), "n_samples_off": bad})
                    if not ip and not np.array_equal(arg, x):
                        run.violation({"kind": "preemph_modified_input", "dtype": str(np.dtype(dt)), "n": n, "coeff": coeff})


def dither(run, tier):
    for dt in (np.float64, np.float32, np.int16):
        for n in (0, 1, 5, 1000):
            base = (np.arange(n) * 3 - 7).astype(dt)
            for coeff in (0.0, 0.5, 2.0):
                d = pre.Dither(coeff)
                outs = []
                for x in (np.zeros(n, dtype=dt), base):
                    for (ip, lay) in [(i, l) for i in (False, True) for l in (common.LAYOUTS if n >= 5 else common.LAYOUTS[:1])]:
                        arg = common.relayout(x, lay)
                        if not ip:
                            arg.flags.writeable = False
                        np.random.seed(99)
                        got = d.apply(arg, in_place=ip)
                        run.evaluations += 1
                        if got.dtype != arg.dtype or got.shape != x.shape:
                            run.violation({"kind": "dither_dtype_or_shape", "dtype": str(np.dtype(dt)), "n": n})
                            continue
                        if not ip and not np.array_equal(arg, x):
                            run.violation({"kind": "dither_modified_input", "dtype": str(np.dtype(dt)), "n": n, "coeff": coeff})
                        outs.append((x, (ip, lay), got))
                np.random.seed(99)
                g = np.random.normal(0, 1, (n,))
                for (x, ip, got) in outs:
                    with warnings.catch_warnings():
                        warnings.simplefilter("ignore")
                        want = (x.astype(np.float64) + coeff * g).astype(dt)
                    ok = np.array_equal(got, want) if dt == np.int16 else np.allclose(got, want, rtol=1e-6 if dt == np.float32 else 1e-12, atol=1e-6 if dt == np.float32 else 1e-12)
                    if not ok:
                        run.violation({"kind": "dither_is_not_x_plus_coeff_times_seeded_noise", "dtype": str(np.dtype(dt)), "n": n,
                                       "coeff": coeff, "in_place": ip, "signal": "zeros" if not x.any() else "ramp"})
    # `in_place` is a truth value: any falsy object leaves the input untouched, any truthy one gives the same values
    for flag in (False, np.False_, 0, None, True, np.True_, 1):
        for op in (pre.Preemphasize(0.9), pre.Dither(0.5)):
            x = (np.arange(40) * 3 - 7).astype(np.float64)
            arg = x.copy()
            np.random.seed(3)
            got = op.apply(arg, in_place=flag)
            np.random.seed(3)
            want = op.apply(x.copy())
            run.evaluations += 1
            if not np.array_equal(got, want):
                run.violation({"kind": "in_place_flag_changes_values", "op": type(op).__name__, "in_place": repr(flag)})
            if not flag and not np.array_equal(arg, x):
                run.violation({"kind": ("preemph" if isinstance(op, pre.Preemphasize) else "dither") + "_modified_input", "in_place": repr(flag),
                               "dtype": "float64", "n": 40})
    # in_place=True on an array that cannot be written to: for every type but float64 the result is a new array anyway
    # (the arithmetic runs in a float64 copy), so the same values come back
    for dt in (np.int16, np.int32, np.float32, np.float16):
        for op in (pre.Preemphasize(0.9), pre.Dither(0.5)):
            name = "preemph" if isinstance(op, pre.Preemphasize) else "dither"
            x = (np.arange(40) * 3 - 7).astype(dt)
            arg = np.frombuffer(x.tobytes(), dtype=dt)  # (read-only, as samples taken from a bytes object are)
            run.evaluations += 1
            try:
                np.random.seed(3)
                got = op.apply(arg, in_place=True)
                np.random.seed(3)
                want = op.apply(x.copy())
            except Exception as e:
                run.violation({"kind": name + "_raised", "dtype": str(np.dtype(dt)), "n": 40, "in_place": True, "input": "read-only", "error": repr(e)})
                continue
            if got.dtype != want.dtype or not np.array_equal(got, want):
                run.violation({"kind": "in_place_flag_changes_values", "op": type(op).__name__, "in_place": "True", "input": "read-only " + str(np.dtype(dt))})
    # the signal may be an ndarray subclass (a memory-mapped recording, a user's own subclass): still untouched
    import tempfile

    class Recording(np.ndarray):
        pass
    with tempfile.TemporaryDirectory(prefix="verif_c18_") as tmpd:
        base = (np.arange(60) * 3 - 7).astype(np.float64)
        mm = np.memmap(os.path.join(tmpd, "sig.f8"), dtype=np.float64, mode="w+", shape=(60,))
        mm[:] = base
        mm.flush()
        for label, arg in (("ndarray subclass", base.copy().view(Recording)), ("memmap r+", mm)):
            for op in (pre.Preemphasize(0.9), pre.Dither(0.5)):
                name = "preemph" if isinstance(op, pre.Preemphasize) else "dither"
                run.evaluations += 1
                try:
                    np.random.seed(3)
                    got = op.apply(arg)
                    np.random.seed(3)
                    want = op.apply(base.copy())
                except Exception as e:
                    run.violation({"kind": name + "_raised", "dtype": "float64", "n": 60, "input": label, "error": repr(e)})
                    continue
                if not np.array_equal(np.asarray(got), want):
                    run.violation({"kind": "in_place_flag_changes_values", "op": type(op).__name__, "input": label})
                if not np.array_equal(np.asarray(arg), base):
                    run.violation({"kind": name + "_modified_input", "in_place": "False", "dtype": "float64", "n": 60, "input": label})
        del mm
    # `coeff` is a public attribute: what counts is its value when apply() is called, not when the object was built
    for (c1, c2) in ((1.0, 0.0), (0.0, 2.0), (1.0, 3.0)):
        x = (np.arange(50) * 3 - 7).astype(np.float64)
        d = pre.Dither(c1)
        d.coeff = c2
        np.random.seed(99)
        got = d.apply(x)
        np.random.seed(99)
        want = x + c2 * np.random.normal(0, 1, (50,))
        run.evaluations += 1
        if not np.allclose(got, want, rtol=1e-12, atol=1e-12):
            run.violation({"kind": "dither_ignores_current_coeff", "constructed_with": c1, "coeff_now": c2})
        p = pre.Preemphasize(c1)
        p.coeff = c2
        got = p.apply(x)
        want = x.copy()
        want[1:] = x[1:] - c2 * x[:-1]
        if not np.array_equal(got, want):
            run.violation({"kind": "preemph_ignores_current_coeff", "constructed_with": c1, "coeff_now": c2})
    np.random.seed(5)
    z = pre.Dither(0.5).apply(np.zeros(200000))
    mean, std = float(z.mean()), float(z.std())
    run.not_decided.append("Dither 'zero mean, std = coeff' is distributional: 2e5 samples gave mean %.4g std %.4g for coeff 0.5; assumed of numpy.random.normal" % (mean, std))
    if abs(mean) > 6 * 0.5 / np.sqrt(2e5) or abs(std - 0.5) > 6 * 0.5 / np.sqrt(4e5):
        run.violation({"kind": "dither_moments_off", "mean": mean, "std": std})


def torch_forms(run, tier, nprng):
    """The torch functional forms (torch.py is one of C18's anchors)."""
    import torch
    from pydrobert.speech import torch as pt
    import c14
    for n in (0, 1, 2, 3, 6, 1000, 65538, 131075):
        for coeff in (0.97, 0.5, 0.0, -0.3) if n <= 1000 else (0.97,):
            for dt in (np.float32, np.float64, np.float16):
                x = (nprng.randn(n) * 10).astype(dt)
                want = x.astype(np.float64).copy()
                want[1:] = x.astype(np.float64)[1:] - coeff * x.astype(np.float64)[:-1]
                for form in ("module", "functional"):
                    t = torch.tensor(x)
                    try:
                        got = (pt.PyTorchPreemphasize(coeff)(t) if form == "module" else pt.pytorch_preemphasize(t, coeff)).numpy()
                        ref = pre.Preemphasize(coeff).apply(x)
                    except Exception as e:
                        run.violation({"kind": "torch_preemphasize_raised", "n": n, "coeff": coeff, "dtype": str(np.dtype(dt)), "form": form, "error": repr(e)})
                        continue
                    run.evaluations += 1
                    tol = 1e-12 if dt == np.float64 else 1e-5 if dt == np.float32 else 4e-3
                    if got.dtype != ref.dtype:
                        # the same dtype as Preemphasize.apply gives: the input's
                        run.violation({"kind": "torch_preemphasize_dtype_differs_from_numpy", "n": n, "coeff": coeff, "dtype": str(np.dtype(dt)),
                                       "form": form, "torch": str(got.dtype), "numpy": str(ref.dtype)})
                    if got.shape != want.shape or not np.allclose(got, want, rtol=tol, atol=tol * 10):
                        run.violation({"kind": "torch_preemphasize_not_recurrence", "n": n, "coeff": coeff, "dtype": str(np.dtype(dt)), "form": form})
                    if not np.array_equal(t.numpy(), x):
                        run.violation({"kind": "torch_preemphasize_modified_input", "n": n})
    c14.dither_law(run, tier)


def run(tier, seed):
    run = common.Run("C18", tier, seed)
    rng = random.Random(seed)
    nprng = np.random.RandomState(seed)
    r = common.tlc("MC_PreOps", "PreOps_%s.cfg" % tier, timeout=900)
    if r.violated:
        run.violation({"kind": "model_" + r.violated, "module": "PreOps", "detail": r.errtext[-2000:]})
    run.add_tlc("PreOps", r)
    r = common.tlc("MC_PreOps", "PreOps_canary.cfg", workers=4, timeout=300)
    if r.violated != "C18_PreemphRecurrence":
        raise common.MachineryError("canary: sequential (recursive) update was not refuted: %r" % r.violated)
    run.extra.setdefault("canaries", []).append({"module": "PreOps", "variant": "UpdateRule=sequential", "refuted_by": r.violated})
    record(run, tier, rng)
    exact_float(run, tier, nprng)
    dither(run, tier)
    torch_forms(run, tier, nprng)
    run.extra["rule"] = "random call sequences (1-4 calls, shared arrays, 5 dtypes, lengths 0-6) validated by TLC; exact float64-recurrence comparison for lengths 0..6 and 1000"
    return run.finish()


def replay(path):
    v = json.load(open(path))
    print(json.dumps(v, indent=1)[:3000])
    if "trace" in v:
        rej, _ = common.validate_traces("TracePreOps", "TracePreOps.cfg", [v["trace"]])
        print("re-validation:", rej or "accepted")
        return 1 if rej else 0
    return 0
