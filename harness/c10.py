"""C10  signals-to-torch-feat-dir survives kill/resume and parallelism unchanged.

S  TLC: FeatDir.tla - every interleaving of the main loop's steps (about to
   save / write opened / write done / manifest line), loader workers, buffer
   flushes, hard kills, soft interrupts and restarts, within bounds: the manifest
   lists only complete files, lags by at most the utterance in flight, the
   resumed directory equals an uninterrupted run's (per-utterance seed), listed
   utterances are not recomputed, eventually done.  The pre-repair seed rule and
   the pre-repair flush rule are each refuted (canaries).
B  fault injection + code -> spec: for every hook point x utterance index x
   kill kind (SIGKILL before the write, in the middle of it, after it, after the
   manifest line, at the end; KeyboardInterrupt) the real tool is run in a forked
   child with dither and a fixed --seed, killed there, inspected (manifest lines,
   per-file absent / partial / identical-to-uninterrupted), re-run to completion
   and compared byte for byte with an uninterrupted run; double crashes; 0 and 2
   workers.  The hook events of every run plus the on-disk observations are
   validated by TLC against FeatDir (TraceFeatDir).
"""
import json
import os
import random
import shutil
import signal
import sys
import tempfile
import warnings

import numpy as np

import common

N_DEFAULT = 4
# utterance ids in map order; later ids are substrings of earlier ones on purpose (ids are matched whole, not as text)
# (... and an id is any run of non-blank characters: "#u1" is an utterance, not a comment)
NAMES = ["zz_u1", "#u1", "u1", "1", "q5", "5"]


def name(k):
    return NAMES[k - 1]


def setup_corpus(root, n, rng):
    os.makedirs(os.path.join(root, "raw"))
    lines = []
    nprng = np.random.RandomState(rng.randint(0, 2 ** 31 - 1))
    for k in range(1, n + 1):
        p = os.path.join(root, "raw", "s%d.npy" % k)
        np.save(p, (nprng.randn(300 + 37 * k) * 100).astype(np.float32))
        lines.append("%s %s" % (name(k), p))
    # (empty lines are legal in a map file and are not utterances: they take no seed offset)
    lines[1:1] = [""]
    lines[4:4] = ["", ""]
    with open(os.path.join(root, "map"), "w") as f:
        f.write("\n".join(lines) + "\n")
    with open(os.path.join(root, "pre.json"), "w") as f:
        f.write('["dither"]')
    with open(os.path.join(root, "comp.json"), "w") as f:
        json.dump({"name": "stft", "bank": {"name": "fbank", "num_filts": 4, "sampling_rate": 8000},
                   "frame_length_ms": 20, "frame_shift_ms": 10}, f)


# file naming of the output directory (--file-prefix / --file-suffix); the manifest holds utterance ids, not names
NAMING = {"prefix": "", "suffix": ".pt"}


def fname(k):
    return NAMING["prefix"] + name(k) + NAMING["suffix"]


def run_tool(root, outdir, workers, crash=None, trace=None, seed=7, manifest=True):
    """Runs the real command in a forked child.  Returns the wait status."""
    args = [os.path.join(root, "map"), os.path.join(root, "comp.json"), outdir, "--seed=%d" % seed,
            "--preprocess=" + os.path.join(root, "pre.json"), "--num-workers=%d" % workers]
    if NAMING["prefix"]:
        args.append("--file-prefix=" + NAMING["prefix"])
    if NAMING["suffix"] != ".pt":
        args.append("--file-suffix=" + NAMING["suffix"])
    if manifest:
        args.append("--manifest=" + outdir + ".manifest")
    sys.stdout.flush()
    sys.stderr.flush()
    pid = os.fork()
    if pid == 0:
        code = 99
        try:
            os.environ["PYDROBERT_SPEECH_VERIF"] = "1"
            if crash:
                os.environ["PYDROBERT_SPEECH_VERIF_CRASH"] = crash
            else:
                os.environ.pop("PYDROBERT_SPEECH_VERIF_CRASH", None)
            if trace:
                os.environ["PYDROBERT_SPEECH_VERIF_TRACE"] = trace
            devnull = os.open(os.devnull, os.O_WRONLY)
            os.dup2(devnull, 2)
            from pydrobert.speech import _verif
            _verif._counts.clear()
            _verif._seq = 0
            from pydrobert.speech import command_line as cl
            try:
                code = cl.signals_to_torch_feat_dir(args) or 0
            except KeyboardInterrupt:
                code = 130
            except BaseException:
                code = 98
        finally:
            # what interpreter exit would do for the manifest object: drop the frames, collect, flush
            import gc
            gc.collect()
            sys.stdout.flush()
            os._exit(code)
    _, st = os.waitpid(pid, 0)
    return pid, st


def run_tool_fresh(root, outdir, workers, hashseed, crash=None, seed=7):
    """The real command in a NEW interpreter with its own string-hash salt (what a re-run after a kill really is)."""
    import subprocess
    args = [os.path.join(root, "map"), os.path.join(root, "comp.json"), outdir, "--seed=%d" % seed,
            "--preprocess=" + os.path.join(root, "pre.json"), "--num-workers=%d" % workers, "--manifest=" + outdir + ".manifest"]
    env = dict(os.environ)
    env.update(PYTHONHASHSEED=str(hashseed), PYTHONPATH=common.REPO_SRC, PYDROBERT_SPEECH_VERIF="1")
    env.pop("PYDROBERT_SPEECH_VERIF_TRACE", None)
    if crash:
        env["PYDROBERT_SPEECH_VERIF_CRASH"] = crash
    else:
        env.pop("PYDROBERT_SPEECH_VERIF_CRASH", None)
    code = "import sys; from pydrobert.speech import command_line as cl; sys.exit(cl.signals_to_torch_feat_dir(sys.argv[1:]) or 0)"
    p = subprocess.run(["/venv/bin/python", "-c", code] + args, env=env, stdout=subprocess.DEVNULL, stderr=subprocess.DEVNULL)
    return p.returncode


def fresh_interpreters(run, root, n, ref):
    """An uninterrupted run, and a run killed after its second manifest line and re-run, each process with a different
    PYTHONHASHSEED: the directories must be the reference's (computed in this process, hash seed 0)."""
    d1 = os.path.join(root, "fresh_complete")
    rc = run_tool_fresh(root, d1, 0, hashseed=101)
    run.evaluations += 1
    _, files = observe(d1, n, ref)
    if rc != 0 or files != list(range(n)):
        run.violation({"kind": "output_depends_on_the_interpreter_process", "what": "uninterrupted run in a new interpreter (PYTHONHASHSEED=101)",
                       "exit": rc, "files": files})
    d2 = os.path.join(root, "fresh_resumed")
    run_tool_fresh(root, d2, 0, hashseed=202, crash="after_manifest_print:1:hard")
    rc = run_tool_fresh(root, d2, 2, hashseed=303)
    run.evaluations += 1
    man, files = observe(d2, n, ref)
    if rc != 0 or files != list(range(n)):
        run.violation({"kind": "resumed_directory_differs_from_uninterrupted_run", "files": files, "exit": rc, "manifest": man,
                       "schedule": ["after_manifest_print:1:hard"], "workers": "0 then 2",
                       "what": "each run in a new interpreter with its own PYTHONHASHSEED (202, 303)"})


def computer_state_does_not_leak(run, root):
    """Worker-count independence with a STATEFUL computer: each process keeps one computer for all its utterances, so with
    0 / 1 / 2 / 3 workers different utterances share a computer.  A short-integration computer, and an utterance too short
    to yield a frame in front of ordinary ones; every stored matrix is what a computer of its own computes."""
    import torch
    from pydrobert.speech import compute, alias
    d = os.path.join(root, "si")
    os.makedirs(os.path.join(d, "raw"))
    rng_ = np.random.RandomState(12345)
    cfg = {"name": "si", "bank": {"name": "gabor", "scaling_function": "mel"}, "frame_shift_ms": 10}  # (default bank: the filters reach 190 samples, the shift is 160)
    with open(os.path.join(d, "comp.json"), "w") as f:
        json.dump(cfg, f)
    sigs, lines = {}, []
    for k, n in enumerate((2000, 20, 2400, 7, 1700, 31, 900)):
        u = "s%d" % k
        x = (rng_.randn(n) * 100).astype(np.float32)
        # (s2 .. s5 live in ONE keyed archive, entry = utterance id: the same path, a different signal per line)
        p = os.path.join(d, "raw", "shared.npz" if 2 <= k <= 5 else u + ".npy")
        if not p.endswith(".npz"):
            np.save(p, x)
        sigs[u] = x
        lines.append("%s %s" % (u, p))
    np.savez(os.path.join(d, "raw", "shared.npz"), **{u: sigs[u] for u in ("s2", "s3", "s4", "s5")})
    with open(os.path.join(d, "map"), "w") as f:
        f.write("\n".join(lines) + "\n")
    want = {}
    for u, x in sigs.items():
        comp = alias.alias_factory_subclass_from_arg(compute.FrameComputer, json.loads(json.dumps(cfg)))
        want[u] = comp.compute_full(x.astype(np.float64)).astype(np.float32)
    for workers in (0, 1, 2, 3):
        out = os.path.join(d, "out_w%d" % workers)
        sys.stdout.flush()
        pid = os.fork()
        if pid == 0:
            code = 99
            try:
                devnull = os.open(os.devnull, os.O_WRONLY)
                os.dup2(devnull, 2)
                os.environ.pop("PYDROBERT_SPEECH_VERIF_CRASH", None)
                os.environ.pop("PYDROBERT_SPEECH_VERIF_TRACE", None)
                from pydrobert.speech import command_line as cl
                code = cl.signals_to_torch_feat_dir([os.path.join(d, "map"), os.path.join(d, "comp.json"), out, "--num-workers=%d" % workers]) or 0
            except BaseException:
                code = 98
            finally:
                os._exit(code)
        _, st = os.waitpid(pid, 0)
        run.evaluations += 1
        if not (os.WIFEXITED(st) and os.WEXITSTATUS(st) == 0):
            run.violation({"kind": "clean_run_failed", "status": st, "workers": workers, "computer": "si"})
            continue
        for u in sigs:
            t = load_tensor(os.path.join(out, u + ".pt"))
            if t is None or tuple(t.shape) != want[u].shape or not np.allclose(t.numpy(), want[u], rtol=2e-4, atol=2e-4):
                run.violation({"kind": "output_depends_on_num_workers", "workers": workers, "computer": "si", "utt": u, "samples": len(sigs[u]),
                               "what": "stored features differ from those of a computer of its own (state left by an earlier utterance of the same process)"})
                break


def load_tensor(path):
    import torch
    try:
        with warnings.catch_warnings():
            warnings.simplefilter("ignore")
            return torch.load(path)
    except Exception:
        return None


def observe(outdir, n, ref):
    man = []
    mp = outdir + ".manifest"
    if os.path.exists(mp):
        man = [l.strip() for l in open(mp) if l.strip()]
    files = []
    import torch
    for k in range(1, n + 1):
        p = os.path.join(outdir, fname(k))
        if not os.path.exists(p):
            files.append(-2)
            continue
        t = load_tensor(p)
        if t is None:
            files.append(-1)
        elif ref is not None and t.shape == ref[k].shape and torch.equal(t, ref[k]):
            files.append(k - 1)
        else:
            files.append(-3)
    return man, files


def all_events(trace):
    out = []
    if os.path.exists(trace):
        for l in open(trace):
            try:
                out.append(json.loads(l))
            except ValueError:
                pass
    return out


def main_events(trace, pid):
    out = []
    if os.path.exists(trace):
        for l in open(trace):
            r = json.loads(l)
            if r["pid"] == pid:
                out.append(r)
    out.sort(key=lambda r: r["seq"])
    return out


def uid(u):
    return NAMES.index(u) + 1


def experiment(run, root, n, ref, schedule, workers, tid):
    """schedule: list of crash specs (strings) applied to successive runs, then a clean run."""
    NAMING.update(prefix=("", "feat_", "")[tid % 3], suffix=(".pt", ".pt", ".feat.pt")[tid % 3])
    try:
        return _experiment(run, root, n, ref, schedule, workers, tid)
    finally:
        NAMING.update(prefix="", suffix=".pt")


def _experiment(run, root, n, ref, schedule, workers, tid):
    outdir = tempfile.mkdtemp(prefix="exp_", dir=root)
    shutil.rmtree(outdir)
    events = []
    ok = True
    listed_before = []
    for step, crash in enumerate(list(schedule) + [None]):
        trace = os.path.join(root, "trace_%d_%d.ndjson" % (tid, step))
        pid, st = run_tool(root, outdir, workers, crash=crash, trace=trace)
        evs = main_events(trace, pid)
        # "neither recomputed nor rewritten": no process of this run (main or loader worker) reads, processes or saves an
        # utterance the manifest listed when the run began (the manifest as it was on disk, not the tool's own account)
        again = sorted({e["utt"] for e in all_events(trace)
                        if e.get("utt") in listed_before and e.get("event") in ("read", "pre", "compute", "raw_column", "post", "save_begin")})
        if again:
            run.violation({"kind": "listed_utterance_recomputed", "utts": again, "listed_when_the_run_began": listed_before,
                           "schedule": schedule, "workers": workers, "run": step})
        man, files = observe(outdir, n, ref)
        if any(u not in NAMES[:n] for u in man):
            run.violation({"kind": "manifest_line_is_not_an_utterance_id", "manifest": man, "naming": dict(NAMING), "schedule": schedule})
            ok = False
            man = [u for u in man if u in NAMES[:n]]
        listed_before = list(man)
        crashed = not (os.WIFEXITED(st) and os.WEXITSTATUS(st) == 0)
        run.evaluations += 1
        started = [e for e in evs if e["event"] == "start"]
        if not started:
            raise common.MachineryError("no start event from the hooks (guard not honoured?)")
        man_at_start = set([name(k) for k in range(1, n + 1)]) - set(started[0]["todo"])
        saved_this_run = []
        for e in evs:
            if e["event"] == "start":
                events.append({"e": "start", "todo": [uid(u) for u in e["todo"]]})
            elif e["event"] in ("save_begin", "save_end", "manifest_print"):
                events.append({"e": e["event"], "u": uid(e["utt"])})
                if e["event"] == "save_end":
                    saved_this_run.append(e["utt"])
                if e["event"] == "save_begin" and e["utt"] in man_at_start:
                    run.violation({"kind": "listed_utterance_recomputed", "utt": e["utt"], "schedule": schedule, "workers": workers})
            elif e["event"] == "crash":
                events.append({"e": "crash", "kind": e["kind"], "disk": [uid(u) for u in man], "files": files})
            elif e["event"] == "finish":
                events.append({"e": "finish", "disk": [uid(u) for u in man], "files": files})
        # property level, directly on what is on disk
        for u in man:
            if files[uid(u) - 1] < 0:
                run.violation({"kind": "manifest_lists_incomplete_file", "utt": u, "after_run": step, "schedule": schedule,
                               "workers": workers, "manifest": man, "files": files})
                ok = False
        if len(set(man)) != len(man):
            run.violation({"kind": "manifest_duplicate_line", "manifest": man, "schedule": schedule})

        if crashed:
            must = saved_this_run[:-1] if saved_this_run else []
            missing = [u for u in must if u not in man]
            if missing:
                run.violation({"kind": "completed_utterances_missing_from_manifest", "missing": missing, "after_run": step,
                               "schedule": schedule, "workers": workers, "manifest": man})
                ok = False
            if crash is None:
                run.violation({"kind": "clean_run_failed", "status": st, "schedule": schedule, "workers": workers})
                ok = False
        elif crash is not None and not crash.startswith("end_of_run"):
            # the crash point was never reached (e.g. occurrence beyond what is left to do): fine
            pass
        os.remove(trace) if os.path.exists(trace) else None
        if crash is None:
            bad = [k for k in range(1, n + 1) if files[k - 1] != k - 1]
            if bad:
                run.violation({"kind": "resumed_directory_differs_from_uninterrupted_run", "utterances": [name(k) for k in bad],
                               "files": files, "schedule": schedule, "workers": workers})
                ok = False
            if sorted(man) != sorted(name(k) for k in range(1, n + 1)):
                run.violation({"kind": "final_manifest_incomplete", "manifest": man, "schedule": schedule, "workers": workers})
    shutil.rmtree(outdir, ignore_errors=True)
    if os.path.exists(outdir + ".manifest"):
        os.remove(outdir + ".manifest")
    return {"tid": tid, "schedule": schedule, "workers": workers, "events": events, "naming": dict(NAMING)}


def run(tier, seed):
    run = common.Run("C10", tier, seed)
    rng = random.Random(seed)
    for cfg, modname in (("FeatDir_%s.cfg" % tier, "FeatDir"), ("FeatDir_w0.cfg", "FeatDir(workers=0)")):
        r = common.tlc("FeatDir", cfg, timeout=900, dump_actions=(cfg == "FeatDir_w0.cfg"))
        if r.violated:
            run.violation({"kind": "model_" + r.violated, "module": modname, "detail": r.errtext[-2500:]})
        run.add_tlc(modname, r, need_actions=("SaveBegin", "SaveWrite", "SaveEnd", "ManifestPrint", "HardKill", "SoftInt", "Restart", "Finish")
                    if cfg == "FeatDir_w0.cfg" else ())
    for cfg, want in (("FeatDir_canary_seed.cfg", "C10_ResumeEqualsUninterrupted"), ("FeatDir_canary_flush.cfg", "C10_ManifestLagsByAtMostOne")):
        r = common.tlc("FeatDir", cfg, workers=4, timeout=300)
        if r.violated != want:
            raise common.MachineryError("canary %s: expected %s to be violated, got %r" % (cfg, want, r.violated))
        run.extra.setdefault("canaries", []).append({"module": "FeatDir", "variant": cfg, "refuted_by": r.violated})
    # the start-up of seeded change C10-r10-mut1 (manifest truncated and printed back unflushed) as a model variant: refuted
    r = common.tlc("FeatDirTidy", "FeatDirTidy.cfg", workers=4, timeout=300)
    if r.violated != "C10_ManifestOnlyGrows":
        raise common.MachineryError("canary FeatDirTidy: expected C10_ManifestOnlyGrows to be violated, got %r" % (r.violated,))
    run.extra.setdefault("canaries", []).append({"module": "FeatDirTidy", "variant": "manifest re-written unflushed at start-up", "refuted_by": r.violated})
    # unbounded: FeatDirAbs.tla carries a TLAPS proof (any N, any number of crashes) of the set-level abstraction;
    # TLC checks that the sequence-level FeatDir.tla refines it, and that the pre-repair seed rule does not
    r = common.tlc("FeatDirRefine", "FeatDir_refines.cfg", workers=4, timeout=600)
    if r.violated:
        run.violation({"kind": "model_" + str(r.violated), "module": "FeatDirRefine (FeatDir => FeatDirAbs)", "detail": r.errtext[-2500:]})
    run.add_tlc("FeatDirRefine", r)
    r = common.tlc("FeatDirRefine", "FeatDir_refines_canary.cfg", workers=4, timeout=300)
    if not r.violated:
        raise common.MachineryError("canary: FeatDir with SeedRule=position still refines FeatDirAbs")
    run.extra.setdefault("canaries", []).append({"module": "FeatDirRefine", "variant": "SeedRule=position", "refuted_by": r.violated})
    verdict, detail = common.tlaps("FeatDirAbs", timeout=600)
    run.extra["tlaps"] = {"module": "FeatDirAbs", "theorems": ["Safety: Spec => [](ManifestOnlyGood /\\ ResumeEqualsUninterrupted)", "Spec => NoRecompute",
                                                                "Spec => ManifestOnlyGrows /\\ ListedFileStays"],
                          "result": verdict, "obligations_or_detail": detail}
    if verdict == "failed":
        raise common.MachineryError("the TLAPS proof of FeatDirAbs no longer checks: %s" % detail)
    import torch  # noqa: F401  (imported before forking so that children do not pay for it)
    n = N_DEFAULT
    root = tempfile.mkdtemp(prefix="verif_c10_")
    traces = []
    try:
        setup_corpus(root, n, rng)
        # uninterrupted reference, 0 workers, no manifest; and the same with 2 workers and with a manifest
        refdir = os.path.join(root, "ref")
        pid, st = run_tool(root, refdir, 0, manifest=False)
        if not (os.WIFEXITED(st) and os.WEXITSTATUS(st) == 0):
            raise common.MachineryError("reference run failed: status %s" % st)
        ref = {k: load_tensor(os.path.join(refdir, name(k) + ".pt")) for k in range(1, n + 1)}
        if any(v is None for v in ref.values()):
            raise common.MachineryError("reference run left unreadable files")
        for workers in (1, 2):
            wdir = os.path.join(root, "w%d" % workers)
            run_tool(root, wdir, workers, manifest=False)
            man, files = observe(wdir, n, ref)
            run.evaluations += 1
            if files != list(range(n)):
                run.violation({"kind": "output_depends_on_num_workers", "workers": workers, "files": files})
        # a different seed must give different files (the comparison is not vacuous)
        sdir = os.path.join(root, "seed8")
        run_tool(root, sdir, 0, seed=8, manifest=False)
        _, files8 = observe(sdir, n, ref)
        if all(f == k for k, f in enumerate(files8)):
            raise common.MachineryError("vacuous: a different --seed produced identical features (dither not applied?)")
        # --seed values are equally fixed: 0 included.  Two runs (with different global RNG states) and a
        # killed-and-resumed run must agree with each other
        for sd in (0, 1):
            outs = []
            for rep in range(2):
                np.random.seed(1000 + 17 * rep + sd)
                d = os.path.join(root, "seed%d_rep%d" % (sd, rep))
                run_tool(root, d, 0, seed=sd, manifest=False)
                outs.append({k: load_tensor(os.path.join(d, name(k) + ".pt")) for k in range(1, n + 1)})
            run.evaluations += 1
            import torch as _t
            if any(outs[0][k] is None or outs[1][k] is None or not _t.equal(outs[0][k], outs[1][k]) for k in outs[0]):
                run.violation({"kind": "fixed_seed_two_runs_differ", "seed": sd})
            else:
                np.random.seed(5 + sd)
                d = os.path.join(root, "seed%d_resume" % sd)
                run_tool(root, d, 0, seed=sd, crash="after_manifest_print:1:hard")
                np.random.seed(77 + sd)
                run_tool(root, d, 2, seed=sd)
                _, fl = observe(d, n, outs[0])
                if fl != list(range(n)):
                    run.violation({"kind": "resumed_directory_differs_from_uninterrupted_run", "seed": sd, "files": fl,
                                   "schedule": ["after_manifest_print:1:hard"], "workers": "0 then 2"})
        fresh_interpreters(run, root, n, ref)
        computer_state_does_not_leak(run, root)
        kinds = [("before_save", "hard"), ("before_save", "mid"), ("before_save", "soft"), ("after_save", "hard"), ("after_save", "soft"),
                 ("after_manifest_print", "hard"), ("after_manifest_print", "soft")]
        schedules = []
        for (pt, kind) in kinds:
            for occ in range(n):
                schedules.append(["%s:%d:%s" % (pt, occ, kind)])
        schedules.append(["end_of_run:0:hard"])
        doubles = []
        for _ in range(10 if tier == "quick" else 80):
            a, b = rng.choice(kinds), rng.choice(kinds)
            doubles.append(["%s:%d:%s" % (a[0], rng.randrange(n), a[1]), "%s:%d:%s" % (b[0], rng.randrange(2), b[1])])
        # a resumed run killed before its first manifest line: what earlier runs listed stays listed
        doubles += [["after_manifest_print:1:hard", "before_save:0:hard"], ["after_manifest_print:2:soft", "after_save:0:hard"],
                    ["after_save:2:hard", "before_save:0:mid"]]
        schedules += doubles
        if tier == "thorough":
            for _ in range(40):
                schedules.append(["%s:%d:%s" % (p, rng.randrange(2), k) for (p, k) in [rng.choice(kinds) for _ in range(3)]])
        tid = 0
        for sch in schedules:
            for workers in ((0, 2) if (tier == "thorough" or len(sch) == 1 and sch[0].split(":")[1] in ("0", "2")) else (tid % 2 * 2,)):
                tid += 1
                traces.append(experiment(run, root, n, ref, sch, workers, tid))
    finally:
        shutil.rmtree(root, ignore_errors=True)
    rejected, tr = common.validate_traces_parallel("TraceFeatDir", "TraceFeatDir.cfg", traces, shards=6)
    if tr.violated:
        run.violation({"kind": "featdir_trace_invariant_" + str(tr.violated), "detail": tr.errtext[-2500:]})
    run.traces += len(traces)
    run.states += tr.distinct
    run.transitions += tr.generated
    byid = {t["tid"]: t for t in traces}
    for (tid_, line, what) in rejected:
        t = byid[tid_]
        run.violation({"kind": "featdir_trace_rejected_at_" + str(what), "schedule": t["schedule"], "workers": t["workers"],
                       "event_index": line, "event": t["events"][line - 1], "trace": t})
    run.sample(traces[1])
    run.sample(traces[-1])
    run.extra["experiments"] = len(traces)
    if not rejected and not tr.violated:
        def corrupt(t):
            e = next(e for e in t["events"] if e["e"] in ("crash", "finish"))
            e["disk"] = e["disk"][:-1] if e["disk"] else [1]
        common.assert_binding_live(run, "TraceFeatDir", "TraceFeatDir.cfg", traces[1], corrupt, "one manifest line removed from an on-disk observation")
    run.extra["rule"] = "every (hook point, utterance index, kill kind) single crash for %d utterances, sampled double%s crashes, 0 and 2 workers; each followed by a clean resume" % (n, "/triple" if tier == "thorough" else "")
    run.assumptions += ["SIGKILL at a hook point stands for a kill anywhere between the surrounding statements; 'mid' emulates a kill inside torch.save by writing half the serialised bytes",
                        "os._exit in the child after a soft interrupt: the manifest object is closed (flushed) by the tool's own frames unwinding"]
    return run.finish()


def replay(path):
    v = json.load(open(path))
    print(json.dumps(v, indent=1)[:3000])
    if "trace" in v:
        rej, _ = common.validate_traces("TraceFeatDir", "TraceFeatDir.cfg", [v["trace"]])
        print("re-validation:", rej or "accepted")
        return 1 if rej else 0
    return 0
