"""Writes /verif/MANIFEST.json from the table below (one source of truth)."""
import json
import os

VERIF = os.path.dirname(os.path.dirname(os.path.abspath(__file__)))

HOOK_COMMITS = []

CHECKS = {
    "C01": dict(
        text="TLC exhausts the implementation-shaped models StftStream and SiStream (every chunking incl. empty chunks, "
             "multi-utterance, compute_full / frame_by_frame interleaved) against the documented definitions (FrameDef, SiDef); "
             "the real computers are then driven through every composition of every signal length up to a bound for every tiny "
             "configuration and each recorded call is validated by TLC against the definition-level trace specification "
             "(TraceStftDef) / the implementation-level one (TraceSi), with feature values compared to compute_full and to the "
             "definition evaluated independently.  Bounded, not a proof: L<=5 (quick) / 8 (thorough), N<=2L+S+4.",
        note="Trusted: TLC, numpy.pad symmetric semantics, the token-capturing wrapper around _compute_frame (original still "
             "called), the NumPy valuation of the SI definition.  Real-size configurations are sampled, not exhausted.",
        technique="TLA+ model checking (TLC) of StftStream/SiStream + batched trace validation of recorded real executions",
        design="6 C01"),
}

NOT_APPLICABLE = {
    "C05": "statement about real-valued closed forms (scale spacing, unit gain, 3 dB / ERB crossings) over a continuous parameter "
           "space: no state, history or schedule for a TLA+ specification to model, and TLC has no reals (DESIGN.md section 7)",
    "C06": "tolerance relation between two floating-point evaluations of a frequency response; the discrete part (where a truncated "
           "tap is placed, wrap-around, mirror) is specified in SpectrumWalk/Recipe and decided under C02 (DESIGN.md section 7)",
    "C07": "numerical analysis (inverse DFT of closed forms, tail bounds, effective supports): outside what an explicit-state "
           "specification can express (DESIGN.md section 7)",
    "C19": "real analysis of four closed-form scale maps (monotonicity, inverse, published constants); only two are even rational "
           "(DESIGN.md section 7)",
}

PENDING = {}


def main():
    props = [json.loads(l) for l in open(os.path.join(VERIF, "properties.jsonl"))]
    checks = []
    na = []
    for p in props:
        pid = p["id"]
        if pid in CHECKS:
            c = CHECKS[pid]
            checks.append({
                "property_id": pid,
                "quick_cmd": "./check %s --tier quick" % pid,
                "thorough_cmd": "./check %s --tier thorough" % pid,
                "evidence_file": "/verif/evidence/%s.json" % pid,
                "replay_cmd_template": "./check %s --replay {path}" % pid,
                "engine": "tlc+harness",
                "level_claimed": {"category": "model_checking", "text": c["text"], "design_ref": "DESIGN.md section " + c["design"]},
                "level_note": c["note"],
                "technique": c["technique"],
            })
        elif pid in NOT_APPLICABLE:
            na.append({"property_id": pid, "reason": NOT_APPLICABLE[pid]})
        else:
            na.append({"property_id": pid, "reason": PENDING.get(pid, "not claimed yet: the specification module and binding for this property are still being built (see DESIGN.md section 12)")})
    man = {
        "version": 1,
        "setup_cmd": "./setup.sh",
        "hooks": {
            "guard": "PYDROBERT_SPEECH_VERIF",
            "enable": "checks set PYDROBERT_SPEECH_VERIF=1 in their own environment and import /repo/src directly (PYTHONPATH); nothing is built",
            "baseline_off_cmd": "cd /repo && env -u PYDROBERT_SPEECH_VERIF /venv/bin/python -m pytest -ra -q -p no:cacheprovider --timeout=900 --continue-on-collection-errors",
            "source_commits": HOOK_COMMITS,
            "add_only": True,
        },
        "engines": [
            {"name": "tlc+harness", "path": "/verif/check", "serves_properties": sorted(CHECKS),
             "kind_free_text": "explicit TLA+ specifications in /verif/spec checked with TLC 1.8; Python harness in /verif/harness records "
                               "executions of the real code for batched trace validation and replays specification-exported tables"},
        ],
        "checks": checks,
        "not_applicable": na,
        "notes": "Model-based verification with explicit TLA+ specifications; see DESIGN.md.  Genuine defects found on the pinned tree "
                 "were repaired with 'fix:' commits in /repo and are listed as fixed in known_findings.jsonl.",
    }
    with open(os.path.join(VERIF, "MANIFEST.json"), "w") as f:
        json.dump(man, f, indent=1)
    print("MANIFEST.json: %d checks, %d not_applicable" % (len(checks), len(na)))


if __name__ == "__main__":
    main()
