"""Writes /verif/MANIFEST.json from the table below (one source of truth)."""
import json
import os

VERIF = os.path.dirname(os.path.dirname(os.path.abspath(__file__)))

HOOK_COMMITS = ["8bcfe8c", "5d046f9", "a0af22e", "c643d0a"]

CHECKS = {
    "C01": dict(
        text="TLC exhausts the implementation-shaped models StftStream and SiStream (every chunking incl. empty chunks, "
             "multi-utterance, compute_full / frame_by_frame interleaved) against the documented definitions (FrameDef, SiDef); "
             "the real computers are then driven through every composition of every signal length up to a bound for every tiny "
             "configuration and each recorded call is validated by TLC against the definition-level trace specification "
             "(TraceStftDef) / the implementation-level one (TraceSi), with feature values compared to compute_full and to the "
             "definition evaluated independently.  Bounded, not a proof: L<=5 (quick) / 8 (thorough), N<=2L+S+4.",
        note="Trusted: TLC, numpy.pad symmetric semantics, the token-capturing wrapper around _compute_frame (original still "
             "called), the NumPy valuation of the SI definition.  Real-size configurations are sampled, not exhausted. The private fill counters feed only the informational implementation-shaped layer; a tree without them is checked at the definition level alone (NOTE + evidence field private_state_not_found).",
        technique="TLA+ model checking (TLC) of StftStream/SiStream + batched trace validation of recorded real executions",
        design="6 C01"),
    "C02": dict(
        text="TLC checks StftStream (compute_full's framing = FrameDef for every configuration and length) and SpectrumWalk (for every "
             "(DFT size, start bin, length) the half-spectrum walk of both the NumPy and the PyTorch implementation pairs each tap with the "
             "bin the documented Recipe names, terminates, never slices short).  Binding: compute_full of the real computer recorded with "
             "token frames for every N<=3L+3 and validated by TLC (TraceStftDef); every exported (D,start,len) row replayed through the real "
             "compute_full with random complex taps; real banks x scales x styles x windows x log/power/energy compared with the definition "
             "evaluated from TLC-exported frames and the documented recipe; default frame length keeps a non-zero bin.",
        note="Relative to get_truncated_response (C06 not claimed): the bank contract the recipe needs is monitored and breaches are listed, "
             "not judged.  Trusted: numpy.fft.fft as the DFT, TLC.  D<=16 (quick) / 40 (thorough) for the exhaustive walk replay.",
        technique="TLA+ model checking (TLC) of SpectrumWalk/StftStream + replay of specification-exported tables + trace validation",
        design="6 C02"),
    "C03": dict(
        text="TLC checks SiStream: every output kept from a DFT block is a valid convolution of the right M inputs, every (output, window "
             "column) pair is accumulated exactly once, the emitted frames equal the definition SiDef, frame count, dtype rule, for every "
             "tiny configuration inside the precondition, every chunking, two utterances.  Binding: the definition frames exported by TLC "
             "are evaluated by direct convolution and compared with the real SIFrameComputer (stub banks over the option matrix, float32/64; "
             "real Gabor/gammatone/triangular banks at 8/16 kHz, lengths around 0, S, L, 1-3 DFT blocks, float16/32/64); private counters "
             "of every call validated against SiStream by TLC (TraceSi).",
        note="Trusted: the bank's get_impulse_response and the library's window taps (C07/C20), numpy.convolve, TLC.  Bounded: S<=3/4, "
             "supports up to 5/7 taps, N<=12/20 for the exhaustive part.",
        technique="TLA+ model checking (TLC) of SiStream + specification-exported definition evaluated against the real code + trace validation",
        design="6 C03"),
    "C04": dict(
        text="TLC checks the C04_* invariants and action properties of StftStream and SiStream over multi-utterance histories (no stale or "
             "junk token ever reaches a frame, reset after finalize, started exactly between first chunk and finalize, refused calls are "
             "no-ops).  Binding: all histories of depth <=3 over a 10-letter alphabet plus random depth-12 histories are replayed on one "
             "real instance per history; every call is validated by TLC against the definition-level trace spec (frames of every "
             "utterance, started flag, ValueError protocol), and a probe utterance is compared bitwise with a fresh instance; inputs are "
             "read-only and checksummed.",
        note="Hidden state that neither changes a frame's content nor the probe utterance's bits within depth-12 histories would be missed. "
             "Trusted: TLC, the frame-capturing wrapper.",
        technique="TLA+ model checking (TLC) + batched trace validation of recorded multi-utterance histories",
        design="6 C04"),
    "C14": dict(
        text="The PyTorch functional STFT is one of the two implementations walked in SpectrumWalk (TLC: pairs = Recipe for every "
             "(D,start,len)); framing and the empty-output shape come from FrameDef.  Binding: the SpectrumWalk table and the C02 value matrix "
             "are replayed through PyTorchSTFTFrameComputer.from_stft_frame_computer(c) and compared with c.compute_full (float64 "
             "parameters), every length 0..3L+3 outside (L//2, L) for shapes and values in float32 and float64; Preemphasize, "
             "PostProcessor wrapper, SI wrapper against their NumPy objects; the dither law x + coeff*G(seed); TorchScript against eager.",
        note="Signals with frame_length//2 < N < frame_length are outside C14's statement (the port pads with a single reflection) and are "
             "skipped.  Dither's moments are a distributional clause: sampled, reported under not_decided.",
        technique="TLA+ model checking (TLC) of SpectrumWalk (impl=torch) + replay of specification-exported tables through the torch modules",
        design="6 C14"),
    "C08": dict(
        text="TLC checks Alias.tla: for every registration sequence (<=4/5 classes, own alias subsets or inherited) and every (root, alias) "
             "query the stack walk of alias.py, one action per pop, returns a matching descendant-or-self, ValueError exactly when none "
             "exists, terminates, and agrees with 'last registered wins' except in the exactly characterised cross-branch case (known "
             "finding).  Binding: every such class table is created on a real AliasedFactory root with type() and every query result is "
             "validated by TLC (TraceAlias); the live registry of the six families is reflected into the same trace format; the "
             "alias_factory_subclass_from_arg table (instances, strings, alias/name precedence, immutable mappings); JSON-round-tripped "
             "nested configurations against explicit construction, bitwise.",
        note="Known finding alias-cross-branch is reported as KNOWN-FINDING only when the returned class is exactly what the documented "
             "walk yields and the later match lies across sibling branches.  Live-registry registration order across branches is not "
             "observable (only per-parent __subclasses__() order).",
        technique="TLA+ model checking (TLC) of the alias walk + batched trace validation of real class trees",
        design="6 C08"),
    "C15": dict(
        text="PostLayout.tla defines Stack and Deltas declaratively as index maps (formal linear combinations of input cells over a "
             "common denominator); TLC checks the k-fold delta filter equals k applications of the Kaldi first-order recursion on an "
             "edge-extended sequence, the 2-D reshape rule equals the N-D rule, and the shape rule.  Binding (spec -> code): TLC "
             "exports, for thousands of cases over shapes (empty / singleton axes), axes (negative too), num_deltas, context windows, "
             "pad modes, num_vectors, the output shape and per-cell combination; the real apply() is compared cell by cell on "
             "arange-filled and random integer tensors in int16 / float32 / float64, with input bytes and in_place checked.",
        note="Cases are a seeded sample (2500 quick / 30000 thorough) of the enumerated space.  Integer dtypes: truncation toward zero "
             "with a 1e-9 guard around exact integers.",
        technique="TLA+ specification evaluated by TLC (constant level) and replayed cell by cell on the real code",
        design="6 C15"),
    "C16": dict(
        text="TLC checks Standardize.tla: after every sequence of vector / tensor accumulate, save and load calls the statistics are "
             "those of the bag accumulated (independent of split, order and call kind), a dimension mismatch is ValueError and changes "
             "nothing.  Binding: random call sequences on real instances (five tensor layouts / axes, three dtypes, read-only inputs) "
             "validated event by event by TLC (TraceStandardize, with the model invariants evaluated on the observed executions); "
             "apply() compared with (x-mean)/std from the exact integer statistics; permutations / splits of one bag must apply "
             "bit-identically; the no-statistics rule over shapes with singleton axes.",
        note="Instance statistics are observed through the private _stats array (exact integers); apply() is compared independently. The instance state validated by TraceStandardize is observed through the public interface (have_stats, what save writes to a scratch .npy), not through private attributes.",
        technique="TLA+ model checking (TLC) + batched trace validation of recorded call sequences",
        design="6 C16"),
    "C17": dict(
        text="The file half of Standardize.tla: what each file kind holds after every save (first unused arr_N, explicit key, overwrite "
             "flag as documented), what load returns, repeatability, ValueError without statistics; the inverted-flag variant is "
             "refuted by TLC (canary).  Binding: random save / load / accumulate sequences on real files in a scratch directory, file "
             "inspected with numpy after every save, validated by TLC; every sign pattern x scale x target kind reloaded and compared "
             "bitwise through apply().",
        note="Loads of a missing npz key are not generated (unspecified).  Raw files are reloaded with force_as='file' as the repository's own test does. Instance state is observed through have_stats / save (public), files by reading them back with numpy.",
        technique="TLA+ model checking (TLC) + batched trace validation against real files",
        design="6 C17"),
    "C18": dict(
        text="TLC checks PreOps.tla: Preemphasize.apply over a heap of arrays as the code shapes it (which object is worked on and "
             "returned, right-hand side evaluated first) against the recurrence, result dtype, input-untouched and only-the-input-may-"
             "change clauses; the recursive-filter variant is refuted (canary); consequences of the dither law.  Binding: random call "
             "sequences on shared real arrays with object identities and every held array snapshotted, validated by TLC "
             "(TracePreOps); bitwise comparison with the float64 recurrence cast back, for fractional coefficients, five dtypes, both "
             "in_place settings, read-only inputs, lengths 0..6 and 1000; Dither = x + coeff * seeded noise; the torch functional forms.",
        note="'Zero mean, standard deviation coeff' is distributional: assumed of numpy.random.normal / torch.randn, sampled and reported under not_decided.",
        technique="TLA+ model checking (TLC) + batched trace validation + exact float comparison",
        design="6 C18"),
    "C20": dict(
        text="Circshift.tla in exact Z_D arithmetic: TLC evaluates every (D, impulse position, shift in -2D..2D, start, length incl. "
             "wrapping, given / defaulted dft_size) and checks the implementation-shaped operator (statement order of the code) equals "
             "the shift theorem and never fails on the documented default; the pre-repair order is refuted (canary).  Binding: every "
             "exported case replayed on the real function with impulse spectra and both copy flags; random spectra against "
             "IDFT/roll/DFT; window classes for every width against numpy.<window>(w) over the exported area table; gamma arg-max; "
             "Hz/angle; gauss_quant monotone, affine, and within 1e-6 sigma of math.erfc.",
        note="Not decided by the specification (numeric clauses, evaluated by the harness only): 'sums to 1 up to O(1/width)' and gauss_quant's accuracy.",
        technique="TLA+ specification evaluated exhaustively by TLC (constant level) + replay of exported cases",
        design="6 C20"),
    "C11": dict(
        text="ReadSignal.tla is the complete decision table of read_signal (source kind x name shape x force_as -> reader or exception "
             "class) by the numbered rules of its docstring; TLC evaluates all rows and checks totality and the ValueError / IOError "
             "clauses.  Binding (spec -> code): every row is replayed on the real function with a real file produced by the container's "
             "own writer that the specified reader must decode, from a (possibly misleading) name and from a binary stream, shapes "
             "(0,), (1,), (n,), (n,2), dtype casts (float32, int32, int64), keys; results compared bit for bit; error rows by class, "
             "twice (the table has no memory).  wds_read_signal on every file, its truncations and random bytes.",
        note="Kaldi table / stream readers are covered only by their dispatch and error rows.  Container fidelity belongs to the "
             "container library; lossy ogg is not compared.  SciPy absent: .wav uses the wave module.",
        technique="TLA+ decision table evaluated by TLC (constant level) + replay of every exported row on the real code",
        design="6 C11"),
    "C12": dict(
        text="SphereRead.tla: the read loop of copy_samples with the real read size over byte intervals; TLC checks for frame sizes "
             "1..12 and promised / present sizes around 0, one frame and 1-3 read sizes that the copied intervals are exactly the first "
             "min(promised, present) frames, in order, with a warning iff short, and termination; the pre-repair loop is refuted "
             "(canary).  G711.tla derives both expansion tables from the recommendation's bit-field formulas.  Binding: every exported "
             "(F, promised, present) row is materialised as a real file (PCM both byte orders, mu-law, A-law, 1024 / 2048-byte "
             "headers), read from a path and a stream and compared in value, shape, dtype and warning; the tables entry by entry and "
             "end to end; raw codes for 1-byte dtypes; bad headers.",
        note="Header clause checked as stated (NIST_1A magic, at least 1024 bytes); other malformed headers are not judged.",
        technique="TLA+ model checking (TLC) of the read loop + replay of exported cases as real files",
        design="6 C12"),
    "C13": dict(
        text="Shorten.tla holds an encoder written from the format and a decoder transcribed from the code over one bit string.  TLC: "
             "exhaustive tiny instances (every command, versions 1-2, running mean, bit shift, block-size change, QLPC) and random "
             "simulation of the general space check decode(encode(x)) = x, every proper prefix runs out of input, unknown version / "
             "command are errors, termination; a floor-division decoder is refuted (canary).  Binding (spec -> code): every exported "
             "behaviour is packed into a SPHERE file and decoded by the real code (path and stream); word-truncated files, unknown "
             "version bytes and an out-of-format command must raise IOError; the six sph2pipe vectors against their WAVs.",
        note="Not decided: mu-law with a bit shift > 0 (no independent definition of shorten's derived table offline).  QLPC only in "
             "blocks at least as long as the predictor history, block size only shrinks (the property's own preconditions).",
        technique="TLA+ model checking + simulation (TLC) of an encoder/decoder pair; exported behaviours replayed as real files",
        design="6 C13"),
    "C09": dict(
        text="Pipeline.tla: per utterance read -> excluded, or pre-processors in order -> computer / raw column -> post-processors in "
             "order -> written once under its own id; TLC checks stage order, that excluded utterances are never written and included "
             "ones exactly once; the variant that ignores post-processors (pre-repair kaldi tool) is refuted (canary).  Binding: both "
             "tools run for real with the guarded hooks on; the stage events of every utterance and the ids in the output are "
             "validated by TLC (TracePipeline); stored matrices (kaldi archive, .pt files) compared at float32 precision with the "
             "library pipeline executed by the harness; inline JSON / JSON file / YAML file; --seed (0 included) twice; several "
             "computers (fbank, complex wrapping banks with odd frame length and padded DFT, kaldi shift, short integration), "
             "channels, workers, raw column, wav / npy / pt / sph containers, too-short / stereo / wrong-rate utterances.",
        note="For dither the expected noise is drawn the way the tool is specified to seed it (numpy global seed for the kaldi tool, "
             "torch.manual_seed(seed + map position) for the torch tool).  A kaldi archive does not keep the column count of an empty matrix. With dither the Kaldi tool is first compared with a replay of numpy seeded once with --seed (exact for the pinned tree); a tree whose noise differs is held to the statement: identical output of two runs with one seed, and the dither-free pipeline up to one unit of noise.",
        technique="TLA+ model checking (TLC) of the per-utterance pipeline + trace validation of hook events + output comparison",
        design="6 C09"),
    "C10": dict(
        text="FeatDir.tla: main loop steps (about to save / destination opened / written / manifest line), loader workers, buffer "
             "flushes, SIGKILL, soft interrupt, restart; TLC explores every interleaving within bounds and checks the manifest lists "
             "only complete files, lags by at most the utterance in flight, the resumed directory equals the uninterrupted one "
             "(per-utterance seed), no recomputation, eventual completion; the pre-repair seed rule and flush rule are each refuted "
             "(canaries).  Binding: fault injection at every hook point x utterance index x kill kind (hard before / in the middle of / "
             "after the write, after the manifest line, at the end; KeyboardInterrupt), double crashes, 0 and 2 workers, dither with "
             "a fixed seed (0 included); directory and manifest inspected after every process exit, resumed and compared byte for byte; "
             "every run's hook events plus the on-disk observations validated by TLC against FeatDir (TraceFeatDir).",
        note="A kill is injected at hook points (between statements) and inside the write by truncation; kills inside other library "
             "calls are assumed equivalent to one of these.  4 utterances per experiment.",
        technique="TLA+ model checking (TLC) of crash/restart interleavings + fault injection + batched trace validation",
        design="6 C10"),
}

NOT_APPLICABLE = {
    "C05": "statement about real-valued closed forms (scale spacing, unit gain, 3 dB / ERB crossings) over a continuous parameter "
           "space: no state, history or schedule for a TLA+ specification to model, and TLC has no reals (DESIGN.md section 7)",
    "C06": "tolerance relation between two floating-point evaluations of a frequency response; the discrete part (where a truncated "
           "tap is placed, wrap-around, mirror) is specified in SpectrumWalk/Recipe and decided under C02 (DESIGN.md section 7)",
    "C07": "numerical analysis (inverse DFT of closed forms, tail bounds, effective supports): outside what an explicit-state "
           "specification can express (DESIGN.md section 7)",
    "C19": "real analysis of four closed-form scale maps (monotonicity, inverse, published constants); only two are even rational "
           "(DESIGN.md section 7)",
}

PENDING = {}


def main():
    props = [json.loads(l) for l in open(os.path.join(VERIF, "properties.jsonl"))]
    checks = []
    na = []
    for p in props:
        pid = p["id"]
        if pid in CHECKS:
            c = CHECKS[pid]
            checks.append({
                "property_id": pid,
                "quick_cmd": "./check %s --tier quick" % pid,
                "thorough_cmd": "./check %s --tier thorough" % pid,
                "evidence_file": "/verif/evidence/%s.json" % pid,
                "replay_cmd_template": "./check %s --replay {path}" % pid,
                "engine": "tlc+harness",
                "level_claimed": {"category": "model_checking", "text": c["text"], "design_ref": "DESIGN.md section " + c["design"]},
                "level_note": c["note"],
                "technique": c["technique"],
            })
        elif pid in NOT_APPLICABLE:
            na.append({"property_id": pid, "reason": NOT_APPLICABLE[pid]})
        else:
            na.append({"property_id": pid, "reason": PENDING.get(pid, "not claimed yet: the specification module and binding for this property are still being built (see DESIGN.md section 12)")})
    man = {
        "version": 1,
        "setup_cmd": "./setup.sh",
        "hooks": {
            "guard": "PYDROBERT_SPEECH_VERIF",
            "enable": "checks set PYDROBERT_SPEECH_VERIF=1 in their own environment and import /repo/src directly (PYTHONPATH); nothing is built",
            "baseline_off_cmd": "cd /repo && env -u PYDROBERT_SPEECH_VERIF /venv/bin/python -m pytest -ra -q -p no:cacheprovider --timeout=900 --continue-on-collection-errors",
            "source_commits": HOOK_COMMITS,
            "add_only": True,
        },
        "engines": [
            {"name": "tlc+harness", "path": "/verif/check", "serves_properties": sorted(CHECKS),
             "kind_free_text": "explicit TLA+ specifications in /verif/spec checked with TLC 1.8; Python harness in /verif/harness records "
                               "executions of the real code for batched trace validation and replays specification-exported tables"},
        ],
        "checks": checks,
        "not_applicable": na,
        "notes": "Model-based verification with explicit TLA+ specifications; see DESIGN.md.  Genuine defects found on the pinned tree "
                 "were repaired with 'fix:' commits in /repo and are listed as fixed in known_findings.jsonl.  Beyond the listed properties: "
                 "./check X01 (corpus.post_process_wrapper against CorpusWrap.tla).  Seeded changes and what detects them: /verif/seeded, DESIGN.md Appendix B.",
    }
    with open(os.path.join(VERIF, "MANIFEST.json"), "w") as f:
        json.dump(man, f, indent=1)
    print("MANIFEST.json: %d checks, %d not_applicable" % (len(checks), len(na)))


if __name__ == "__main__":
    main()
