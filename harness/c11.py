"""C11  read_signal returns exactly what was stored, from a path or a stream.

S  TLC (constant evaluation of ReadSignal.tla): the complete decision table
   (source kind x name shape x force_as) -> reader or exception class, by the
   numbered rules of the docstring; total, with the ValueError / IOError rows
   the property names.
B  spec -> code: every row is replayed on the real read_signal with a real
   file whose contents were produced by the container's own writer and which
   the *specified* reader must decode: from the (possibly misleading) name and
   from an open binary stream; the result must be the stored array bit for bit
   with its dtype and time x channels layout, then cast by `dtype`; `key`
   selects the entry; error rows must raise the specified class.
   wds_read_signal on every file, on truncations and on random bytes.
"""
import io
import json
import os
import random
import shutil
import tempfile
import warnings
import wave

import numpy as np

import common
import sph_util
from pydrobert.speech import util, config as pconfig


def export():
    d = tempfile.mkdtemp(prefix="verif_rs_")
    try:
        out = os.path.join(d, "t.json")
        r = common.tlc("ReadSignal", "ReadSignal.cfg", workdir=d, workers=1, env={"OUT_FILE": out}, timeout=600)
        if r.violated:
            return None, r
        return json.load(open(out)), r
    finally:
        shutil.rmtree(d, ignore_errors=True)


def name_of(n):
    ext = n["ext"]
    if n.get("dotted"):
        base = "corpus.v2/utt.01" if ext != "noext" else "corpus.v2/utt_noext"
    else:
        base = "sig"
    if ext != "noext":
        base = base + "." + ext
    if n["table"]:
        base = "ark:" + base
    d = os.path.dirname(base)
    if d:
        os.makedirs(d, exist_ok=True)
    return base


def make_arrays(nprng, thorough):
    shapes = [(0,), (1,), (37,), (37, 2)] + ([(5, 3), (1000, 2), (1, 1)] if thorough else [])
    return shapes


def write_container(reader, path, arr, nprng, variant):
    """Writes `arr` with the container's own writer; returns (stored array as the reader must return it, key)."""
    key = None
    if reader == "wav":
        x = arr.astype("<i2" if variant % 2 == 0 else "<i4")
        w = wave.open(path, "wb")
        w.setnchannels(1 if x.ndim == 1 else x.shape[1])
        w.setsampwidth(x.dtype.itemsize)
        w.setframerate(8000)
        w.writeframes(x.tobytes())
        w.close()
        return x, None
    if reader == "soundfile":
        import soundfile
        x = arr.astype(np.int16)
        fmt = "AIFF" if variant % 2 else "FLAC"
        soundfile.write(path, x, 8000, subtype="PCM_16", format=fmt)
        return x, None
    if reader == "npy":
        x = arr.astype([np.float64, np.int16, np.float32, np.int64][variant % 4])
        with open(path, "wb") as f:
            np.save(f, x)
        return x, None
    if reader == "npz":
        x = arr.astype([np.float64, np.int32][variant % 2])
        other = np.arange(3)
        with open(path, "wb") as f:
            if variant % 3 == 0:
                np.savez(f, x)  # arr_0
            elif variant % 3 == 1:
                np.savez(f, other, x, mine=other)  # arr_0 = other: use a key for x
                key = "arr_1"
            else:
                np.savez_compressed(f, arr_0=x, zzz=other)
        return x, key
    if reader == "pt":
        import torch
        x = arr.astype([np.float32, np.int64][variant % 2])
        torch.save(torch.from_numpy(x.copy()), path)
        return x, None
    if reader == "hdf5":
        import h5py
        x = arr.astype([np.float64, np.int16][variant % 2])
        with h5py.File(path, "w") as f:
            if variant % 2 == 0:
                f.create_dataset("a/b/first", data=x)  # depth-first in name order: a/b/first comes before a/c and z
                f.create_dataset("a/c", data=np.arange(4))
                f.create_dataset("z", data=np.arange(2))
            else:
                f.create_dataset("m", data=np.arange(4))
                f.create_dataset("n/sig", data=x)
                key = "n/sig"
        return x, key
    if reader == "file":
        x = arr.astype(np.float64).reshape(-1)
        x.tofile(path)
        return x, None
    if reader == "sph":
        x = arr.astype(np.int16)
        if x.shape[0] == 0:
            x = np.zeros((1,) + x.shape[1:], dtype=np.int16)  # the header cannot promise zero samples
        with open(path, "wb") as f:
            # (every third file carries a lot of metadata: a 2048-byte header whose mandatory fields lie across byte 1024)
            f.write(sph_util.pcm_file(x, "01" if variant % 2 == 0 else "10", **(dict(hsize=2048, lead=sph_util.METADATA) if variant % 3 == 2 else {})))
        return x, None
    raise ValueError(reader)


class NoSeek(io.RawIOBase):
    """A readable binary stream that cannot seek or tell (a pipe)."""

    def __init__(self, data):
        self._b = io.BytesIO(data)

    def readable(self):
        return True

    def seekable(self):
        return False

    def readinto(self, buf):
        d = self._b.read(len(buf))
        buf[:len(d)] = d
        return len(d)


def same(a, b):
    return isinstance(a, np.ndarray) and a.dtype == b.dtype and a.shape == b.shape and a.tobytes() == b.tobytes()


def run(tier, seed):
    run = common.Run("C11", tier, seed)
    rng = random.Random(seed)
    nprng = np.random.RandomState(seed)
    if set(pconfig.SOUNDFILE_SUPPORTED_FILE_TYPES) != {"wav", "flac", "aiff", "ogg"}:
        raise common.MachineryError("environment assumption: SOUNDFILE_SUPPORTED_FILE_TYPES is %s, the specification was configured for wav/flac/aiff/ogg" % sorted(pconfig.SOUNDFILE_SUPPORTED_FILE_TYPES))
    rows, r = export()
    if rows is None:
        run.violation({"kind": "model_" + r.violated, "module": "ReadSignal", "detail": r.errtext[-2000:]})
        return run.finish()
    run.states += len(rows)
    run.transitions += len(rows)
    run.tlc_runs.append({"module": "ReadSignal", "rows": len(rows), "wall_s": round(r.wall, 2)})
    shapes = make_arrays(nprng, tier == "thorough")
    tmp = tempfile.mkdtemp(prefix="verif_c11_")
    cwd = os.getcwd()
    executed = skipped = 0
    files_for_wds = []
    try:
        os.chdir(tmp)
        for k, row in enumerate(sorted(rows, key=lambda q: json.dumps(q, sort_keys=True))):
            outcome, src, fa = row["outcome"], row["src"], row["force_as"]
            name = name_of(row["name"])
            kw = {} if fa == "none" else {"force_as": fa}
            if outcome in ("IOError", "ValueError"):
                arg = name if src == "path" else io.BytesIO(b"\x00" * 64)
                run.evaluations += 1
                try:
                    with warnings.catch_warnings():
                        warnings.simplefilter("ignore")
                        util.read_signal(arg, **kw)
                    run.violation({"kind": "no_exception_where_%s_specified" % outcome, "row": row})
                except Exception as e:
                    want = (IOError,) if outcome == "IOError" else (ValueError,)
                    if not isinstance(e, want) or (outcome == "ValueError" and isinstance(e, IOError)):
                        run.violation({"kind": "wrong_exception_class", "row": row, "raised": type(e).__name__, "specified": outcome})
                executed += 1
                continue
            if outcome in ("table", "kaldi"):
                skipped += 1  # a real archive is read in C09; here only the dispatch rows around them are executed
                continue
            for shape in (shapes if (k % 4 == 0 or tier == "thorough") else shapes[2:4]):
                if outcome == "file" and len(shape) > 1:
                    continue
                if outcome in ("wav", "soundfile", "sph") and len(shape) > 1 and shape[1] > 2 and outcome == "wav":
                    pass
                if outcome == "soundfile" and shape[0] == 0:
                    continue  # libsndfile cannot reopen a flac / aiff without frames
                if outcome in ("wav", "soundfile", "sph") and len(shape) == 2 and shape[1] == 1:
                    continue  # one channel is stored (and read back) as mono, by every audio container
                arr = nprng.randint(-3000, 3000, size=shape)
                variant = k + len(shape)
                if os.path.exists(name):
                    os.remove(name)
                try:
                    stored, key = write_container(outcome, name, arr, nprng, variant)
                except Exception as e:
                    raise common.MachineryError("could not write a %s container: %r" % (outcome, e))
                for dtype in (None, np.float32, np.int32, np.int64):
                    kw2 = dict(kw)
                    if key is not None:
                        kw2["key"] = key
                    if dtype is not None:
                        kw2["dtype"] = dtype
                    want = stored if dtype is None else stored.astype(dtype)
                    if outcome == "file" and dtype is not None:
                        continue  # for raw binary `dtype` is the storage type, not a cast
                    run.evaluations += 1
                    try:
                        with warnings.catch_warnings():
                            warnings.simplefilter("ignore")
                            if src == "path":
                                got = util.read_signal(name, **kw2)
                            elif outcome in ("wav", "sph") and (k + len(shape)) % 2:
                                # a pipe: the two sequential readers need neither seek nor tell
                                with open(name, "rb") as f:
                                    got = util.read_signal(io.BufferedReader(NoSeek(f.read())), **kw2)
                            elif (k + len(shape)) % 3 == 0:
                                # a stream whose `name` is a file descriptor (os.fdopen, tempfile.TemporaryFile, subprocess pipes)
                                with os.fdopen(os.open(name, os.O_RDONLY), "rb") as f:
                                    got = util.read_signal(f, **kw2)
                            else:
                                with open(name, "rb") as f:
                                    got = util.read_signal(f, **kw2)
                    except Exception as e:
                        run.violation({"kind": "read_signal_raised", "row": row, "reader": outcome, "shape": list(shape),
                                       "dtype_arg": None if dtype is None else str(np.dtype(dtype)), "key": key, "error": repr(e)})
                        continue
                    if not same(got, want):
                        run.violation({"kind": "read_back_differs_from_stored", "row": row, "reader": outcome, "shape": list(shape),
                                       "stored_dtype": str(stored.dtype), "dtype_arg": None if dtype is None else str(np.dtype(dtype)), "key": key,
                                       "got_dtype": str(getattr(got, "dtype", None)), "got_shape": list(getattr(got, "shape", []))})
                executed += 1
                if src == "path" and fa == "none" and not row["name"]["table"]:
                    files_for_wds.append((name, open(name, "rb").read(), stored, key))
        # NIST SPHERE files longer than the reader's 16 KiB reads, with the shorten marker's bytes as ordinary samples
        # at the read boundaries (the marker only means something at the start of the data section)
        for (shape, order) in (((20000,), "01"), ((9000, 2), "10"), ((17000,), "10"), ((6000, 3), "01")):
            x = nprng.randint(-3000, 3000, size=shape).astype(np.int16)
            flat = x.reshape(-1)
            fsz = 2 * (1 if len(shape) == 1 else shape[1])
            for bs in {16384, (16384 // fsz) * fsz}:
                for off in range(bs, flat.size * 2 - 3, bs):
                    if off % 2 == 0:
                        flat[off // 2: off // 2 + 2] = np.frombuffer(b"ajkg", dtype="<i2" if order == "01" else ">i2")
            blob = sph_util.pcm_file(x, order)
            with open("long.sph", "wb") as f:
                f.write(blob)
            for src in ("path", "stream"):
              for dtype in (None, np.int8, np.float32, np.int64):  # a given dtype is a final cast, narrower ones too
                run.evaluations += 1
                kwd = {} if dtype is None else {"dtype": dtype}
                try:
                    with warnings.catch_warnings():
                        warnings.simplefilter("ignore")
                        got = util.read_signal("long.sph", **kwd) if src == "path" else util.read_signal(io.BytesIO(blob), force_as="sph", **kwd)
                except Exception as e:
                    run.violation({"kind": "read_signal_raised", "reader": "sph", "shape": list(shape), "src": src, "byte_order": order,
                                   "dtype_arg": None if dtype is None else str(np.dtype(dtype)),
                                   "what": "marker bytes as samples at a read boundary", "error": repr(e)})
                    continue
                if not same(got, x if dtype is None else x.astype(dtype)):
                    run.violation({"kind": "read_back_differs_from_stored", "reader": "sph", "shape": list(shape), "src": src, "byte_order": order,
                                   "dtype_arg": None if dtype is None else str(np.dtype(dtype)),
                                   "what": "marker bytes as samples at a read boundary"})
            files_for_wds.append(("long.sph", blob, x, None))
        # shorten-compressed and G.711 SPHERE files: behaviours exported from spec/Shorten.tla (a fixed corpus,
        # harness/data/shorten_corpus.json) decoded against the samples the specification's encoder was given; companded
        # files with a requested dtype (a final cast of the EXPANDED samples, unless it is one byte wide)
        import c12
        import c13
        g711 = c12.export("G711", "G711.cfg")
        ulaw_t, alaw_t = np.array(g711["ulaw"], dtype=np.int64), np.array(g711["alaw"], dtype=np.int64)
        corpus = json.load(open(os.path.join(os.path.dirname(os.path.abspath(__file__)), "data", "shorten_corpus.json")))["behaviours"]
        for kk, beh in enumerate(corpus):
            c13.check_behaviour(run, kk, beh, ulaw_t, tmp, rng)
        for coding, tab in (("ulaw", ulaw_t), ("alaw", alaw_t)):
            for nchan, n in ((1, 300), (3, 7000)):
                codes = nprng.randint(0, 256, size=(n, nchan)).astype(np.uint8)
                blob = sph_util.law_file(codes if nchan > 1 else codes.reshape(-1), coding, nchan)
                with open("law.sph", "wb") as f:
                    f.write(blob)
                exp16 = tab[codes if nchan > 1 else codes.reshape(-1)].astype(np.int16)
                for dtype in (None, np.int16, np.float32, np.float64, np.int32, np.int64, np.uint8):
                    kwd = {} if dtype is None else {"dtype": dtype}
                    want = exp16 if dtype is None else ((codes if nchan > 1 else codes.reshape(-1)).astype(dtype) if np.dtype(dtype).itemsize == 1 else exp16.astype(dtype))
                    for src in ("path", "stream"):
                        run.evaluations += 1
                        try:
                            with warnings.catch_warnings():
                                warnings.simplefilter("ignore")
                                got = util.read_signal("law.sph", **kwd) if src == "path" else util.read_signal(io.BytesIO(blob), force_as="sph", **kwd)
                        except Exception as e:
                            run.violation({"kind": "read_signal_raised", "reader": "sph", "coding": coding, "channels": nchan, "src": src,
                                           "dtype_arg": None if dtype is None else str(np.dtype(dtype)), "error": repr(e)})
                            continue
                        if not same(got, want):
                            run.violation({"kind": "read_back_differs_from_stored", "reader": "sph", "coding": coding, "channels": nchan, "src": src,
                                           "dtype_arg": None if dtype is None else str(np.dtype(dtype)),
                                           "got_dtype": str(getattr(got, "dtype", None)), "got_shape": list(getattr(got, "shape", []))})
        # the table has no memory: after all the calls above (including every refused one) the
        # IOError / ValueError rows must still come out the same
        for row in rows:
            if row["outcome"] not in ("IOError", "ValueError"):
                continue
            arg = name_of(row["name"]) if row["src"] == "path" else io.BytesIO(b"\x00" * 64)
            kw = {} if row["force_as"] == "none" else {"force_as": row["force_as"]}
            run.evaluations += 1
            try:
                with warnings.catch_warnings():
                    warnings.simplefilter("ignore")
                    for fn in (name_of(row["name"]),):
                        if row["outcome"] == "IOError" and not os.path.exists(fn):
                            open(fn, "wb").write(np.arange(4.0).tobytes())
                    util.read_signal(arg, **kw)
                run.violation({"kind": "no_exception_where_%s_specified_second_pass" % row["outcome"], "row": row})
            except Exception as e:
                ok = isinstance(e, IOError) if row["outcome"] == "IOError" else (isinstance(e, ValueError) and not isinstance(e, IOError))
                if not ok:
                    run.violation({"kind": "wrong_exception_class_second_pass", "row": row, "raised": type(e).__name__})
        # "a stream without force_as raises ValueError" also when the stream has a name the type could be read off
        # (open(), NamedTemporaryFile): the name of a stream is not consulted
        np.save("named_stream.npy", np.arange(5.0))
        np.savez("named_stream.npz", np.arange(5.0))
        open("named_stream.bin", "wb").write(np.arange(5.0).tobytes())
        for fn in ("named_stream.npy", "named_stream.npz", "named_stream.bin", None):
            fh = open(fn, "rb") if fn else tempfile.NamedTemporaryFile(dir=tmp)
            run.evaluations += 1
            try:
                with warnings.catch_warnings():
                    warnings.simplefilter("ignore")
                    util.read_signal(fh)
                run.violation({"kind": "no_exception_where_ValueError_specified", "row": {"src": "stream", "force_as": "none"},
                               "stream_name": fn or "NamedTemporaryFile"})
            except Exception as e:
                if not isinstance(e, ValueError) or isinstance(e, IOError):
                    run.violation({"kind": "wrong_exception_class", "row": {"src": "stream", "force_as": "none"}, "raised": type(e).__name__,
                                   "specified": "ValueError", "stream_name": fn or "NamedTemporaryFile"})
            finally:
                fh.close()
        # SPHERE files written by the container's own writer (libsndfile's NIST format): 16- and 32-bit samples, either byte order
        import soundfile
        if "NIST" in soundfile.available_formats():
            for subtype, dt in (("PCM_16", np.int16), ("PCM_32", np.int32)):
                for endian in ("BIG", "LITTLE"):
                    for nch in (1, 2, 3):
                        info = np.iinfo(dt)
                        x = nprng.randint(info.min, info.max, size=(37, nch) if nch > 1 else (37,)).astype(dt)
                        x.reshape(-1)[:2] = (info.min, info.max)
                        soundfile.write("own.sph", x, 8000, subtype=subtype, endian=endian, format="NIST")
                        for src in ("path", "stream"):
                            run.evaluations += 1
                            try:
                                with warnings.catch_warnings():
                                    warnings.simplefilter("ignore")
                                    got = util.read_signal("own.sph") if src == "path" else util.read_signal(open("own.sph", "rb"), force_as="sph")
                            except Exception as e:
                                run.violation({"kind": "read_signal_raised", "reader": "sph", "writer": "libsndfile NIST", "subtype": subtype, "endian": endian,
                                               "channels": nch, "src": src, "error": repr(e)})
                                continue
                            if not same(got, x):
                                run.violation({"kind": "read_back_differs_from_stored", "reader": "sph", "writer": "libsndfile NIST", "subtype": subtype,
                                               "endian": endian, "channels": nch, "src": src, "got_dtype": str(getattr(got, "dtype", None)),
                                               "got_shape": list(getattr(got, "shape", []))})
        # key selects the named entry (npz / hdf5), default entries
        key_checks(run, nprng)
        # wds_read_signal
        wds(run, tier, rng, files_for_wds)
    finally:
        os.chdir(cwd)
        shutil.rmtree(tmp, ignore_errors=True)
    run.traces += executed
    run.extra["rows_executed"] = executed
    run.extra["rows_dispatch_only"] = skipped
    run.exhaustive = True
    run.sample(rows[0])
    run.sample(rows[len(rows) // 2])
    run.extra["rule"] = "every row of the exported decision table replayed; kaldi table/stream readers are dispatch-only"
    run.assumptions += ["container fidelity itself belongs to the container library; the lossy ogg container is not compared",
                        "scipy is absent: .wav goes through the standard wave module"]
    return run.finish()


def key_checks(run, nprng):
    a, b = nprng.randn(5), nprng.randint(0, 9, size=(4, 2))
    with open("k.npz", "wb") as f:
        np.savez(f, a, second=b)
    for key, want in ((None, a), ("arr_0", a), ("second", b)):
        got = util.read_signal("k.npz", key=key)
        run.evaluations += 1
        if not same(got, want):
            run.violation({"kind": "npz_key_selects_wrong_entry", "key": key})
    import h5py
    with h5py.File("k.hdf5", "w") as f:
        f.create_dataset("g1/x", data=a)
        f.create_dataset("g2/y", data=b)
    for key, want in ((None, a), ("g1/x", a), ("g2/y", b)):
        got = util.read_signal("k.hdf5", key=key)
        run.evaluations += 1
        if not same(got, want):
            run.violation({"kind": "hdf5_key_selects_wrong_entry", "key": key})


def wds(run, tier, rng, files):
    warnings.simplefilter("ignore")
    seen = set()
    for (name, data, stored, key) in files:
        if name in seen:
            continue
        seen.add(name)
        run.evaluations += 1
        try:
            got = util.wds_read_signal(name, data)
        except BaseException as e:
            run.violation({"kind": "wds_read_signal_raised", "name": name, "error": repr(e)})
            continue
        if key is None and got is not None and not same(got, stored):
            run.violation({"kind": "wds_read_signal_differs_from_read_signal", "name": name})
        if key is None and got is None and name.rsplit(".", 1)[-1] in ("npy", "pt", "flac", "aiff", "wav", "sph", "hdf5", "npz"):
            run.violation({"kind": "wds_read_signal_none_for_decodable", "name": name})
        for cut in sorted({0, 1, 4, 10, len(data) // 2, max(0, len(data) - 1)} | {rng.randrange(len(data) + 1) for _ in range(10)}):
            try:
                util.wds_read_signal(name, data[:cut])
            except BaseException as e:
                run.violation({"kind": "wds_read_signal_raised", "name": name, "truncated_to": cut, "error": repr(e)})
                break
    for suffix in ("wav", "flac", "aiff", "ogg", "hdf5", "npy", "npz", "pt", "sph", "txt", ""):
        for _ in range(20 if tier == "quick" else 200):
            blob = bytes(rng.getrandbits(8) for _ in range(rng.choice([0, 1, 16, 1100])))
            if suffix == "sph" and rng.random() < 0.5:
                blob = b"NIST_1A\n   1024\n" + blob
            run.evaluations += 1
            try:
                out = util.wds_read_signal("k." + suffix if suffix else "k", blob)
            except BaseException as e:
                run.violation({"kind": "wds_read_signal_raised", "suffix": suffix, "n_bytes": len(blob), "error": repr(e)})
                break
            if out is not None and not isinstance(out, np.ndarray):
                run.violation({"kind": "wds_read_signal_returned_non_array", "suffix": suffix})


def replay(path):
    print(json.dumps(json.load(open(path)), indent=1)[:3000])
    return 0
