"""C17  Saved normalisation statistics reload to the same transform.

S  TLC: the file half of Standardize.tla - what a file holds after every save
   (npy / npz with keys, first unused arr_N, overwrite flag as documented / raw),
   what a load returns, saving twice, saving without statistics.
B  code -> spec: random sequences of save / load (and accumulate) on real files
   in a scratch directory; after every save the file is inspected with numpy,
   after every load the new instance's statistics are read; validated by
   TraceStandardize.  Then: every sign pattern and scale (negative sums), every
   target kind, reload gives a bit-identical apply(); repeated saves.
"""
import json
import os
import random
import shutil
import tempfile
import warnings

import numpy as np

import common
import std_model
from pydrobert.speech import post


def sign_patterns(run, tier, rng):
    nprng = np.random.RandomState(rng.randint(0, 2 ** 31 - 1))
    tmp = tempfile.mkdtemp(prefix="verif_c17_")
    try:
        k = 0
        # (1e160 / 1e-170: the sum of squares leaves the doubles - whatever the statistics hold is what must come back)
        for scale in (1.0, 1e-3, 1e4, 1e160, 1e-170):
            for signs in ((1, 1), (-1, 1), (-1, -1), (1, -1)):
                for dt in (np.float64, np.float32) if 1e-10 < scale < 1e10 else (np.float64,):
                    for norm_var in (True, False):
                        data = (np.abs(nprng.randn(7, 2)) * scale * np.array(signs) - (0.1 * scale * np.array(signs))).astype(dt)
                        s = post.Standardize(norm_var=norm_var)
                        with warnings.catch_warnings():
                            warnings.simplefilter("ignore")
                            s.accumulate(data)
                        probe = (nprng.randn(5, 2) * scale).astype(np.float64)
                        with warnings.catch_warnings():
                            warnings.simplefilter("ignore")
                            want = s.apply(probe)
                        for (fn, skw, lkw) in (("s.npy", {}, {}), ("s.npz", {}, {}), ("k.npz", {"key": "mine"}, {"key": "mine"}),
                                               ("c.npz", {"compress": True}, {}), ("s.bin", {}, {"force_as": "file"}),
                                               ("noext", {}, {"force_as": "file"})):
                            k += 1
                            path = os.path.join(tmp, "%d.stats_%s" % (k, fn))  # (a name with more than one dot: the kind is the LAST suffix)
                            run.evaluations += 1
                            try:
                                s.save(path, **skw)
                                s.save(path, **skw)  # saving again to the existing file succeeds
                                with warnings.catch_warnings():
                                    warnings.simplefilter("ignore")
                                    t = post.Standardize(path, norm_var=norm_var, **lkw)
                                    got = t.apply(probe)
                            except Exception as e:
                                run.violation({"kind": "save_reload_raised", "target": fn, "signs": list(signs), "scale": scale,
                                               "dtype": str(np.dtype(dt)), "error": repr(e)})
                                continue
                            if got.tobytes() != want.tobytes():
                                run.violation({"kind": "reloaded_transform_differs", "target": fn, "signs": list(signs), "scale": scale,
                                               "dtype": str(np.dtype(dt)), "norm_var": norm_var})
        # coefficients that never vary (a dead channel, a floored log-energy): every count, raw target
        for const in (-3.3, float(np.log(1e-10)), 0.1, 1.0 / 3.0, 0.0):
            for n in range(1, 41):
                data = np.stack([np.full(n, const), nprng.randn(n)], axis=1)
                s = post.Standardize()
                s.accumulate(data)
                probe = nprng.randn(3, 2)
                k += 1
                path = os.path.join(tmp, "%d_const.bin" % k)
                run.evaluations += 1
                try:
                    with warnings.catch_warnings():
                        warnings.simplefilter("ignore")
                        want = s.apply(probe)
                        s.save(path)
                        got = post.Standardize(path, force_as="file").apply(probe)
                except Exception as e:
                    run.violation({"kind": "save_reload_raised", "target": "raw", "constant_coefficient": const, "n_vectors": n, "error": repr(e)})
                    continue
                if got.tobytes() != want.tobytes():
                    run.violation({"kind": "reloaded_transform_differs", "target": "raw", "constant_coefficient": const, "n_vectors": n})
        # "sequences of save calls on the same path": statistics of FEWER coefficients saved where wider ones were (and the other
        # way round) - what reloads is the last save, whole
        for fn, lkw in (("w.bin", {"force_as": "file"}), ("w.npy", {}), ("w.npz", {}), ("w_noext", {"force_as": "file"})):
            for (d1, d2) in ((40, 13), (13, 40), (6, 2), (5, 4)):
                k += 1
                path = os.path.join(tmp, "%d.stats_%s" % (k, fn))  # (a name with more than one dot: the kind is the LAST suffix)
                wide, narrow = post.Standardize(), post.Standardize()
                wide.accumulate(nprng.randn(9, d1) * 2 + 1)
                narrow.accumulate(nprng.randn(9, d2) * 3 - 1)
                probe = nprng.randn(4, d2)
                run.evaluations += 1
                try:
                    with warnings.catch_warnings():
                        warnings.simplefilter("ignore")
                        wide.save(path)
                        narrow.save(path)
                        want = narrow.apply(probe)
                        got = post.Standardize(path, **lkw).apply(probe)
                except Exception as e:
                    run.violation({"kind": "save_reload_raised", "target": fn, "coefficients": [d1, d2], "what": "second save on the same path",
                                   "error": repr(e)})
                    continue
                if got.tobytes() != want.tobytes():
                    run.violation({"kind": "reloaded_transform_differs", "target": fn, "coefficients": [d1, d2], "what": "second save on the same path"})
        # keyword arguments of the constructor are handed to the reader (documented); a memory-mapped .npy among them.
        # What was loaded is the instance's own: a later save to that path does not reach it, and what it accumulates
        # does not reach the file before it saves
        for mode in ("r", "c", "r+"):
            k += 1
            path = os.path.join(tmp, "%d_mm.npy" % k)
            a = post.Standardize()
            a.accumulate(nprng.randn(9, 3))
            probe = nprng.randn(4, 3)
            run.evaluations += 1
            try:
                a.save(path)
                want = a.apply(probe)
                b = post.Standardize(path, mmap_mode=mode)
                first = b.apply(probe)
                if mode == "r+":
                    b.accumulate(nprng.randn(5, 3) * 7 + 2)
                    again = post.Standardize(path).apply(probe)
                    if again.tobytes() != want.tobytes():
                        run.violation({"kind": "saved_file_changed_without_save", "target": "npy", "mmap_mode": mode})
                else:
                    a.accumulate(nprng.randn(5, 3) * 7 + 2)
                    a.save(path)
                    if b.apply(probe).tobytes() != want.tobytes():
                        run.violation({"kind": "loaded_instance_changed_by_a_later_save", "target": "npy", "mmap_mode": mode})
                if first.tobytes() != want.tobytes():
                    run.violation({"kind": "reloaded_transform_differs", "target": "npy", "mmap_mode": mode})
            except Exception as e:
                run.violation({"kind": "save_reload_raised", "target": "npy", "mmap_mode": mode, "error": repr(e)})
        # no statistics: ValueError, for every kind
        for fn in ("e.npy", "e.npz", "e.bin"):
            try:
                post.Standardize().save(os.path.join(tmp, fn))
                run.violation({"kind": "save_without_statistics_no_error", "target": fn})
            except ValueError:
                pass
            if os.path.exists(os.path.join(tmp, fn)):
                run.violation({"kind": "save_without_statistics_wrote_a_file", "target": fn})
    finally:
        shutil.rmtree(tmp, ignore_errors=True)


def run(tier, seed):
    run = common.Run("C17", tier, seed)
    rng = random.Random(seed)
    std_model.model_check(run, tier)
    std_model.drive(run, tier, rng, "file")
    sign_patterns(run, tier, rng)
    run.extra["rule"] = "random sequences of save/load/accumulate over npy, two npz archives and a raw file with keys/compress/overwrite; all sign patterns x 3 scales x 6 targets reloaded bitwise"
    return run.finish()


def replay(path):
    v = json.load(open(path))
    print(json.dumps(v, indent=1)[:3000])
    if "trace" in v:
        rej, _ = common.validate_traces("MC_TraceStandardize", "TraceStandardize.cfg", [v["trace"]])
        print("re-validation:", rej or "accepted")
        return 1 if rej else 0
    return 0
