"""C12  Uncompressed NIST SPHERE audio decodes exactly.

S  TLC: SphereRead.tla - the read loop with the real read size over byte
   intervals, for frame sizes 1..12 and promised / present sizes around 0, one
   frame and 1-3 read sizes: the copied intervals are exactly the first
   min(promised, present) frames in order, warning iff short, terminates; the
   pre-repair loop is refuted (canary).  G711.tla: both expansion tables from the
   recommendation's bit-field formulas, all 2 x 256 codes.
B  spec -> code: every (F, promised, present) row of SphereCases is materialised
   as a real file (16-bit PCM in both byte orders, 8-bit mu-law / A-law; header
   1024 / 2048 bytes) whose data byte k is a function of k, read from a path and
   from a stream; value, shape, dtype and the warning must match.  ULAW2PCM /
   ALAW2PCM entry by entry against G711, and end to end; 1-byte dtype returns
   raw codes; bad headers raise IOError.
"""
import io
import json
import os
import random
import shutil
import tempfile
import warnings

import numpy as np

import common
import sph_util
import c11
from pydrobert.speech import util, _sphere


def export(module, cfg):
    d = tempfile.mkdtemp(prefix="verif_sp_")
    try:
        out = os.path.join(d, "t.json")
        r = common.tlc(module, cfg, workdir=d, workers=1, env={"OUT_FILE": out}, timeout=600)
        if r.violated:
            raise common.MachineryError("%s: %s" % (module, r.violated))
        return json.load(open(out))
    finally:
        shutil.rmtree(d, ignore_errors=True)


# "any header size": the size the header declares, whether or not it is a multiple of the customary 1024
HEADER_SIZES = (1024, 2048, 1025, 1100, 1536, 2500)


def data_bytes(n, frame=0):
    """Data byte k is a function of k.  With `frame`, the four bytes b'ajkg' (the marker by which the reader
    recognises embedded shorten data at the START of the data section) are planted at every later read boundary:
    in an uncompressed file they are ordinary samples."""
    k = np.arange(n, dtype=np.int64)
    raw = ((k * 7 + 3 + (k // 251) * 13) % 256).astype(np.uint8)
    if frame:
        for bs in {16384, max(1, 16384 // frame) * frame}:
            for off in range(bs, n - 3, bs):
                raw[off:off + 4] = np.frombuffer(b"ajkg", dtype=np.uint8)
    return raw


def run(tier, seed):
    run = common.Run("C12", tier, seed)
    rng = random.Random(seed)
    r = common.tlc("MC_SphereRead", "SphereRead_%s.cfg" % tier, timeout=900)
    if r.violated:
        run.violation({"kind": "model_" + r.violated, "module": "SphereRead", "detail": r.errtext[-2000:]})
    run.add_tlc("SphereRead", r)
    rc = common.tlc("MC_SphereRead", "SphereRead_canary.cfg", workers=4, timeout=300)
    if not rc.violated:
        raise common.MachineryError("canary: fixed-size reads were not refuted")
    run.extra.setdefault("canaries", []).append({"module": "SphereRead", "variant": "ReadRule=fixed", "refuted_by": rc.violated})
    g711 = export("G711", "G711.cfg")
    rows = export("SphereCases", "SphereCases.cfg")
    run.states += 512 + len(rows)
    run.transitions += 512 + len(rows)
    # tables entry by entry
    for name, tab, ref in (("ULAW2PCM", _sphere.ULAW2PCM, g711["ulaw"]), ("ALAW2PCM", _sphere.ALAW2PCM, g711["alaw"])):
        run.evaluations += 256
        if len(tab) != 256 or any(int(tab[c]) != ref[c] for c in range(256)):
            bad = [c for c in range(min(256, len(tab))) if int(tab[c]) != ref[c]]
            run.violation({"kind": "g711_table_entry_differs", "table": name, "codes": bad[:10]})
    ulaw = np.array(g711["ulaw"], dtype=np.int16)
    alaw = np.array(g711["alaw"], dtype=np.int16)
    rows = sorted(rows, key=lambda q: (q["F"], q["promised"], q["avail"]))
    if tier == "quick":
        rows = [q for i, q in enumerate(rows) if i % 4 == 0 or q["avail"] % 16384 in (0, 1, 16383)]
    tmp = tempfile.mkdtemp(prefix="verif_c12_")
    try:
        for k, q in enumerate(rows):
            F, promised, avail, frames = q["F"], q["promised"], q["avail"], q["frames"]
            raw = data_bytes(avail, F if k % 2 else 0)
            hs_ = HEADER_SIZES[(k // 2) % len(HEADER_SIZES)]
            # (a header with a lot of metadata: the mandatory fields then lie across byte 1024, in the part of a long
            # header that is read second)
            lead = ["note_%03d -s10 abcdefghij" % j for j in range(37 + k % 5)] if hs_ >= 1536 and k % 3 != 1 else []
            if k % 4 == 2:
                lead = lead[: max(0, len(lead) - 2)] + ["snr -r 35.25", "recording_level -r -3.5"]  # (real-valued fields are legal too)
            if F % 2 == 0 and k % 3 != 2:
                nchan, coding, bf = F // 2, "pcm", ("01", "10")[k % 2]
                # (sample_coding defaults to pcm: headers written without it - TIMIT's, for one - are well-formed)
                hdr = sph_util.header(nchan, promised, 2, bf, "pcm", HEADER_SIZES[(k // 2) % len(HEADER_SIZES)],
                                      omit=("sample_coding",) if k % 4 == 3 else (), lead=lead, trail=("", " ", "  ")[k % 3], fill=(b" ", b"\x00", b"\xff", b"\n", b"\x80")[k % 5])
                used = raw[: frames * F].tobytes()
                want = np.frombuffer(used, dtype="<i2" if bf == "01" else ">i2").astype(np.int16)
                dtype_arg = None
                if k % 5 == 1:  # a requested dtype is a final cast of the decoded samples, whatever its width
                    dtype_arg = (np.int8, np.float32, np.int64)[(k // 5) % 3]
                    want = want.astype(dtype_arg)
            else:
                nchan, coding = F, ("ulaw", "alaw")[k % 2]
                # (sample_byte_format says nothing about one-byte samples and may be absent)
                hdr = sph_util.header(nchan, promised, 1, "1", coding, HEADER_SIZES[(k // 2) % len(HEADER_SIZES)],
                                      omit=("sample_byte_format",) if k % 4 == 1 else (), lead=lead, trail=("", " ", "  ")[k % 3], fill=(b" ", b"\x00", b"\xff", b"\n", b"\x80")[k % 5])
                codes = raw[: frames * F]
                dtype_arg = (np.uint8, np.int8)[(k // 5) % 2] if k % 5 == 0 else None  # a 1-byte dtype: the raw codes
                want = codes.astype(dtype_arg) if dtype_arg is not None else (ulaw if coding == "ulaw" else alaw)[codes]
                if k % 5 == 1:  # any wider dtype: the expanded samples, cast
                    dtype_arg = (np.float32, np.int32, np.int64, np.float64, np.int16)[(k // 5) % 5]
                    want = want.astype(dtype_arg)
            want = want.reshape((frames,) if nchan == 1 else (frames, nchan))
            if k % 7 == 3:
                # a well-formed header whose field text (and end_head) runs past byte 1024
                extra = ["speaker_id_%02d -s8 ABCDEFGH" % j for j in range(40)]
                if coding == "pcm":
                    hdr = sph_util.header(nchan, promised, 2, bf, "pcm", 2048 if len(extra) < 60 else 4096, extra=extra)
                else:
                    hdr = sph_util.header(nchan, promised, 1, "1", coding, 2048, extra=extra)
                if hdr.index(b"end_head") < 1024:
                    raise common.MachineryError("long-header case does not reach past byte 1024")
            blob = hdr + raw.tobytes()
            with warnings.catch_warnings(record=True) as w:
                warnings.simplefilter("always")
                try:
                    if k % 2:
                        p = os.path.join(tmp, "f.sph")
                        with open(p, "wb") as f:
                            f.write(blob)
                        got = util.read_signal(p, dtype=dtype_arg)
                    else:
                        stream = io.BytesIO(blob) if k % 4 else io.BufferedReader(c11.NoSeek(blob))  # (k % 4 == 0: a pipe)
                        if k % 8 == 6:
                            # (... or a file object made from a descriptor: its `name` is a number)
                            p = os.path.join(tmp, "fd.sph")
                            with open(p, "wb") as f:
                                f.write(blob)
                            stream = os.fdopen(os.open(p, os.O_RDONLY), "rb")
                        try:
                            got = util.read_signal(stream, force_as="sph", dtype=dtype_arg)
                        finally:
                            stream.close()
                except Exception as e:
                    run.violation({"kind": "sphere_read_raised", "case": q, "coding": coding, "channels": nchan, "error": repr(e)})
                    continue
            run.evaluations += 1
            # (any warning the library itself issues counts - its wording is not part of the property; numpy's arithmetic
            # RuntimeWarnings and deprecation notices are not the library speaking)
            warned = any(issubclass(x.category, UserWarning) for x in w)
            if got.shape != want.shape or got.dtype != want.dtype or got.tobytes() != want.tobytes():
                first = None
                if got.shape == want.shape and got.size and np.any(got != want):
                    first = int(np.argwhere(got.reshape(-1) != want.reshape(-1))[0][0])
                run.violation({"kind": "sphere_samples_differ_from_stored", "case": q, "coding": coding, "channels": nchan,
                               "got_shape": list(got.shape), "definition_shape": list(want.shape), "got_dtype": str(got.dtype),
                               "want_dtype": str(want.dtype), "first_differing_sample": first})
            elif warned != q["warn"]:
                run.violation({"kind": "sphere_warning_rule", "case": q, "warned": warned})
        run.traces += len(rows)
        run.sample({"case": rows[0]})
        run.sample({"case": rows[len(rows) // 2]})
        # all 256 codes end to end, 2 channels
        for coding, tab in (("ulaw", ulaw), ("alaw", alaw)):
            codes = np.arange(256, dtype=np.uint8).reshape(128, 2)
            got = util.read_signal(io.BytesIO(sph_util.law_file(codes, coding, 2)), force_as="sph")
            run.evaluations += 1
            if got.dtype != np.int16 or not np.array_equal(got, tab[codes]):
                run.violation({"kind": "g711_end_to_end_differs", "coding": coding})
        # bad headers: not NIST_1A / shorter than 1024 / declared size below 1024
        good = sph_util.pcm_file(np.arange(10, dtype=np.int16))
        for name, blob in (("wrong_magic", b"RIFF_1A" + good[7:]), ("short_file", good[:600]),
                           ("declared_size_512", good[:8] + b"    512\n" + good[16:]), ("empty", b"")):
            run.evaluations += 1
            try:
                util.read_signal(io.BytesIO(blob), force_as="sph")
                run.violation({"kind": "bad_header_accepted", "header": name})
            except IOError:
                pass
            except Exception as e:
                run.violation({"kind": "bad_header_wrong_exception", "header": name, "raised": type(e).__name__})
    finally:
        shutil.rmtree(tmp, ignore_errors=True)
    run.extra["rule"] = "every (F, promised, present) row exported by SphereCases%s; PCM both byte orders / mu-law / A-law; path and stream" % (" (quick: every 4th + read-size boundaries)" if tier == "quick" else "")
    run.extra["rows"] = len(rows)
    return run.finish()


def replay(path):
    print(json.dumps(json.load(open(path)), indent=1)[:3000])
    return 0
