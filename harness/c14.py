"""C14  PyTorch modules compute what their NumPy counterparts compute.

S  No new machine: the torch functional STFT must refine the same FrameDef +
   SpectrumWalk (impl = "torch" is one of the two implementations TLC walks) +
   Recipe; C14_EmptyShape is FrameDef.NumFrames = 0 below MinLen.
B  spec -> code: the SpectrumWalk table is replayed through
   PyTorchSTFTFrameComputer.from_stft_frame_computer(c); the C02 value matrix is
   run through the torch module and compared with the valuation AND with
   c.compute_full; every length 0..3L+3 for shapes; float32 and float64;
   Preemphasize / PostProcessor wrapper / SI wrapper / Dither law; TorchScript
   against eager.
"""
import random
import warnings

import numpy as np
import torch

import common
import stubs
import c01
import c02
import stft_val as V
import gen_mc
from pydrobert.speech import pre
import si_model
from pydrobert.speech import compute, filters, pre, post
from pydrobert.speech import torch as pt


def shapes_all_lengths(run, tier, nprng):
    """Every N in 0..3L+3: same shape; values for N >= L (C14 statement)."""
    cfgs = c01.stft_configs(tier)
    if tier == "quick":
        cfgs = [c for i, c in enumerate(cfgs) if i % 2 == 0]
    cfgs = cfgs + c01.gapped_configs(tier)
    cases = []
    for (L, S, st) in cfgs:
        for N in range(0, 3 * max(L, S) + 4):
            cases.append({"L": L, "S": S, "st": stubs.spec_style(st), "N": N, "style": st})
    styles = [c.pop("style") for c in cases]
    rows = V.export_frames(cases)
    k = 0
    for row in rows:
        L, S, st, N = row["L"], row["S"], styles[k], row["N"]
        k += 1
        energy = bool(k & 1)
        pad = bool(k & 8)
        D = int(2 ** np.ceil(np.log2(L))) if pad else L
        if k % 3:
            bank = stubs.OneHotBank([((k + i) % D, nprng.randn(1 + (k + 2 * i) % D) + 1j * nprng.randn(1 + (k + 2 * i) % D)) for i in range(2)], D, real=False)
        else:
            bank = stubs.StubBank([[1.0, 0.5], [0.25, -1.0, 0.5]], [0, 0])
        c = stubs.make_stft(L, S, st, bank=bank, include_energy=energy, use_log=bool(k & 2), use_power=bool(k & 4), pad=pad)
        if L // 2 + 1 <= N < L:
            continue  # outside C14's statement (the torch port pads with a single reflection)
        for (ft, wt, tol) in ((torch.cdouble, torch.double, 1e-9), (torch.cfloat, torch.float, 2e-4)):
            tc = pt.PyTorchSTFTFrameComputer.from_stft_frame_computer(c, filter_type=ft, window_type=wt)
            x = nprng.randn(N)
            a = c.compute_full(x)
            b = tc(stubs.torch_layout(x, dtype=wt)).detach().numpy()
            run.evaluations += 1
            ncol = c.num_coeffs
            if tuple(b.shape) != tuple(a.shape):
                run.violation({"kind": "torch_shape_differs", "L": L, "S": S, "style": st, "N": N, "include_energy": energy,
                               "torch_shape": list(b.shape), "numpy_shape": list(a.shape), "definition": [row["nframes"], ncol]})
                continue
            if N >= L and a.size:
                fl = np.log(1e-5)
                ok = np.isclose(a, b, rtol=tol, atol=tol) | (np.abs(a - fl) < 1e-3) | (np.abs(b - fl) < 1e-3)
                if not ok.all():
                    kk, ii = np.argwhere(~ok)[0]
                    run.violation({"kind": "torch_values_differ_from_numpy", "L": L, "S": S, "style": st, "N": N, "precision": str(wt),
                                   "what": "frame %d coeff %d: torch %r numpy %r" % (kk, ii, float(b[kk, ii]), float(a[kk, ii]))})
    run.sample({"shape_case": rows[len(rows) // 2]["L"], "N": rows[len(rows) // 2]["N"], "nframes": rows[len(rows) // 2]["nframes"]})


def pre_post_si(run, tier, nprng):
    # Preemphasize
    for n in (0, 1, 2, 3, 17, 1000):
        for coeff in (0.97, 0.5, 0.0, -0.3):
            for dt in (np.float32, np.float64):
                x = nprng.randn(n).astype(dt)
                a = pre.Preemphasize(coeff).apply(x)
                m = pt.PyTorchPreemphasize.from_preemphasize(pre.Preemphasize(coeff))
                try:
                    t = stubs.torch_layout(x)
                    b = m(t).numpy()
                    b_again = m(t).numpy()  # the module is a function of its argument: the same tensor, the same answer
                except Exception as e:
                    run.violation({"kind": "torch_preemphasize_raises", "n": n, "coeff": coeff, "dtype": str(np.dtype(dt)), "error": repr(e)})
                    continue
                run.evaluations += 1
                if not np.array_equal(t.numpy(), x) or not np.array_equal(b, b_again):
                    run.violation({"kind": "torch_preemphasize_modified_its_input", "n": n, "coeff": coeff, "dtype": str(np.dtype(dt))})
                if a.shape != b.shape or not np.allclose(a, b, rtol=1e-5 if dt == np.float32 else 1e-12, atol=1e-6 if dt == np.float32 else 1e-12):
                    run.violation({"kind": "torch_preemphasize_differs", "n": n, "coeff": coeff, "dtype": str(np.dtype(dt))})
    # PostProcessor wrapper
    feats = nprng.randn(11, 4)
    for p in (post.Deltas(2), post.Stack(3), post.Stack(2, pad_mode="edge"), post.Standardize(), post.Deltas(1, concatenate=False, target_axis=0)):
        with warnings.catch_warnings():
            warnings.simplefilter("ignore")
            a = p.apply(feats)
            b = pt.PyTorchPostProcessorWrapper.from_postprocessor(p)(torch.tensor(feats)).numpy()
        run.evaluations += 1
        if a.shape != b.shape or not np.allclose(a, b, rtol=1e-12, atol=1e-12):
            run.violation({"kind": "torch_postprocessor_wrapper_differs", "post": type(p).__name__})
    # SI wrapper
    for c in gen_mc.si_configs("quick")[::4]:
        taps = [list(nprng.randint(-3, 4, size=c["length"]).astype(float) + 0.5)]
        comp = si_model.make_si(c, taps, use_power=True, use_log=True)
        for N in (0, 1, c["D"], 3 * c["D"] + 1):
            for dt in (np.float32, np.float64):
                x = nprng.randn(N).astype(dt)
                a = comp.compute_full(x)
                b = pt.PyTorchSIFrameComputer.from_si_frame_computer(comp)(stubs.torch_layout(x)).numpy()
                run.evaluations += 1
                if a.shape != b.shape or a.dtype != b.dtype or not np.array_equal(a, b):
                    run.violation({"kind": "torch_si_wrapper_differs", "cfg": c, "N": N, "dtype": str(np.dtype(dt))})


def dither_law(run, tier):
    """PreOps law on the torch side: out = x + coeff * G(seed), G independent of x."""
    for n in (0, 1, 5, 1000):
        for coeff in (0.0, 0.5, 2.0):
          # (dither is part of the feature definition, not a training-time regulariser: the module's mode is irrelevant,
          # and so is whether it was built directly, from a numpy Dither, or scripted)
          for variant in ("train", "eval", "from_dither_eval", "scripted_eval"):
            m = pt.PyTorchDither(coeff) if not variant.startswith("from_dither") else pt.PyTorchDither.from_dither(pre.Dither(coeff))
            if variant == "scripted_eval":
                with warnings.catch_warnings():
                    warnings.simplefilter("ignore")
                    m = torch.jit.script(m)
            if variant != "train":
                m = m.eval()
            outs = []
            for x in (torch.zeros(n, dtype=torch.double), torch.arange(n, dtype=torch.double) * 3 - 7):
                torch.manual_seed(1234)
                outs.append((m(x) - x).numpy())
            torch.manual_seed(1234)
            again = (m(torch.zeros(n, dtype=torch.double))).numpy()
            run.evaluations += 1
            if not np.allclose(outs[0], outs[1], rtol=0, atol=1e-9):
                run.violation({"kind": "torch_dither_depends_on_signal", "n": n, "coeff": coeff, "module": variant})
            if not np.array_equal(again, outs[0]):
                run.violation({"kind": "torch_dither_not_reproducible", "n": n, "coeff": coeff, "module": variant})
            if coeff == 0.0 and np.any(outs[0] != 0):
                run.violation({"kind": "torch_dither_coeff0_not_identity", "n": n})
            if coeff:
                torch.manual_seed(1234)
                unit = (pt.PyTorchDither(1.0)(torch.zeros(n, dtype=torch.double))).numpy()
                if not np.allclose(outs[0], coeff * unit, rtol=1e-12, atol=1e-12):
                    run.violation({"kind": "torch_dither_not_linear_in_coeff", "n": n, "coeff": coeff, "module": variant})
    torch.manual_seed(7)
    z = pt.PyTorchDither(0.5)(torch.zeros(200000, dtype=torch.double)).numpy()
    mean, std = float(z.mean()), float(z.std())
    run.not_decided.append("PyTorchDither 'zero mean, std = coeff' is distributional: sample of 2e5 gave mean %.4g std %.4g (coeff 0.5); "
                           "outside a 6-sigma band is reported as a violation, otherwise assumed" % (mean, std))
    if abs(mean) > 6 * 0.5 / np.sqrt(2e5) or abs(std - 0.5) > 6 * 0.5 / np.sqrt(4e5):
        run.violation({"kind": "torch_dither_moments_off", "mean": mean, "std": std, "coeff": 0.5})


def scripted(run, tier, nprng):
    with warnings.catch_warnings():
        warnings.simplefilter("ignore")
        cfgs = [(5, 2, "centered", True), (6, 3, "causal", False), (4, 1, "kaldi", True)]
        if tier == "thorough":
            cfgs += [(L, S, st, e) for (L, S, st) in c01.stft_configs("quick")[::7] for e in (True, False)]
        for (L, S, st, energy) in cfgs:
            bank = filters.GaborFilterBank("mel", num_filts=2, sampling_rate=stubs.RATE)
            c = stubs.make_stft(L, S, st, bank=bank, include_energy=energy, pad=True)
            tc = pt.PyTorchSTFTFrameComputer.from_stft_frame_computer(c)
            ts = torch.jit.script(tc)
            for N in (0, L // 2, L // 2 + 1, L, 3 * L + 1):
                x = torch.tensor(nprng.randn(N), dtype=torch.float)
                a, b = tc(x).detach().numpy(), ts(x).detach().numpy()
                run.evaluations += 1
                if a.shape != b.shape or not np.allclose(a, b, rtol=1e-5, atol=1e-6):
                    run.violation({"kind": "torchscript_differs_from_eager", "L": L, "S": S, "style": st, "N": N,
                                   "eager_shape": list(a.shape), "script_shape": list(b.shape)})
        for mod in (pt.PyTorchPreemphasize(0.9), pt.PyTorchDither(0.0)):
            ts = torch.jit.script(mod)
            for N in (0, 1, 9):
                x = torch.tensor(nprng.randn(N), dtype=torch.float)
                try:
                    a, b = mod(x).numpy(), ts(x).numpy()
                except Exception as e:
                    run.violation({"kind": "torch_module_raises", "module": type(mod).__name__, "N": N, "error": repr(e)})
                    continue
                run.evaluations += 1
                if a.shape != b.shape or not np.allclose(a, b):
                    run.violation({"kind": "torchscript_differs_from_eager", "module": type(mod).__name__, "N": N})


def dynamic_range(run, tier, nprng):
    """Single-precision signals with a large dynamic range (speech after a door slam, a slam after speech): every frame's
    coefficients, the energy included, agree with compute_full on the same samples to single precision."""
    from pydrobert.speech import compute
    with warnings.catch_warnings():
        warnings.simplefilter("ignore")
        bank = filters.TriangularOverlappingFilterBank("mel", num_filts=6, sampling_rate=16000)
        for (log, power) in ((True, True), (True, False), (False, True)):
            c = compute.STFTFrameComputer(bank, frame_length_ms=25, frame_shift_ms=10, include_energy=True, use_log=log, use_power=power)
            tc = pt.PyTorchSTFTFrameComputer.from_stft_frame_computer(c)
            loud, quiet = nprng.randn(16000) * 6000.0, nprng.randn(16000) * 3.0
            # (noise only: a constant offset leaves nothing but single-precision cancellation noise in the filter outputs,
            # about which the property promises nothing)
            for label, x in (("loud_then_quiet", np.concatenate([loud, quiet])), ("quiet_then_loud", np.concatenate([quiet, loud]))):
                x32 = x.astype(np.float32)
                a = tc(torch.from_numpy(x32)).detach().numpy().astype(np.float64)
                b = c.compute_full(x32).astype(np.float64)
                run.evaluations += 1
                if a.shape != b.shape:
                    run.violation({"kind": "torch_shape_differs", "signal": label, "use_log": log, "use_power": power})
                    continue
                ok = np.isclose(a, b, rtol=2e-3, atol=2e-3 if log else 1e-30)
                if not ok.all():
                    fr, co = (int(v) for v in np.argwhere(~ok)[0])
                    run.violation({"kind": "torch_differs_from_numpy_at_float32", "signal": label, "use_log": log, "use_power": power,
                                   "frame": fr, "coefficient": co, "torch": float(a[fr, co]), "numpy": float(b[fr, co]),
                                   "n_off": int((~ok).sum())})


def run(tier, seed):
    run = common.Run("C14", tier, seed)
    nprng = np.random.RandomState(seed)
    torch.manual_seed(seed)
    c02.walk_model_check(run, tier)
    c01.stft_model_check(run, tier)
    walk = c02.walk_probe(run, tier, nprng, torch_too=True, prop="C14")
    c02.value_level(run, tier, nprng, walk, torch_too=True, prop="C14")
    shapes_all_lengths(run, tier, nprng)
    pre_post_si(run, tier, nprng)
    dither_law(run, tier)
    scripted(run, tier, nprng)
    dynamic_range(run, tier, nprng)
    run.traces += run.evaluations  # every evaluation is a replay of a spec-exported row / case on the real modules
    run.extra["rule"] = "SpectrumWalk table and C02 value matrix through the torch module (float64 parameters), every N in 0..3L+3 for shapes (float32 and float64), pre/post/SI wrappers, dither law, TorchScript sub-matrix"
    return run.finish()


def replay(path):
    import json
    print(json.dumps(json.load(open(path)), indent=1)[:4000])
    return 0
