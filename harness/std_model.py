"""Standardize (C16, C17): TLC model check, trace driver on real objects / files,
apply() valuation."""
import os
import shutil
import tempfile
import warnings

import numpy as np

import common
from pydrobert.speech import post

# (the kind of a target is decided by its suffix exactly as written: ".npy" / ".npz", anything else - upper-case
# look-alikes included - is raw binary)
PATHS = [("a", "npy", "a.npy"), ("b", "npz", "b.npz"), ("c", "raw", "c.bin"), ("d", "npz", "d.npz"),
         ("e", "raw", "E.NPY"), ("f", "raw", "f.Npz"),
         # relative names (the driver works inside the scenario's directory) that merely BEGIN like a Kaldi
         # "ark:" / "scp:" specifier
         ("g", "npy", "scp_stats.npy"), ("h", "npz", "ark-cmvn.npz")]


def target(d, fn):
    return fn if fn[:3] in ("scp", "ark") else os.path.join(d, fn)


def model_check(run, tier):
    r = common.tlc("MC_Standardize", "Standardize_%s.cfg" % tier, timeout=1800)
    if r.violated:
        run.violation({"kind": "model_" + r.violated, "module": "Standardize", "detail": r.errtext[-2500:]})
    run.add_tlc("Standardize", r)
    r = common.tlc("MC_Standardize", "Standardize_canary.cfg", workers=8, timeout=600)
    if r.violated != "C17_OverwriteRule":
        raise common.MachineryError("canary: inverted overwrite flag was not refuted (%r)" % r.violated)
    run.extra.setdefault("canaries", []).append({"module": "Standardize", "variant": "OverwriteRule=inverted", "refuted_by": r.violated})


_OBS_DIR = []


def stats_of(obj):
    """The instance's statistics as its PUBLIC interface shows them: `have_stats`, and what `save` writes to a `.npy`
    (the documented 2 x (D+1) matrix).  How the object keeps them internally is its own business.  An instance without
    data (none accumulated, or loaded from an all-zero template) is reported as "no statistics"."""
    if not obj.have_stats:
        return {"n": 0, "sum": [], "sq": []}
    if not _OBS_DIR:
        import atexit
        _OBS_DIR.append(tempfile.mkdtemp(prefix="verif_std_obs_"))
        atexit.register(shutil.rmtree, _OBS_DIR[0], True)
    path = os.path.join(_OBS_DIR[0], "observed.npy")
    with warnings.catch_warnings():
        warnings.simplefilter("ignore")
        obj.save(path)
    return arr_stats(np.load(path))


def arr_stats(s):
    s = np.asarray(s, dtype=np.float64).reshape(2, -1)
    vals = [float(v) for v in s.reshape(-1)]
    if any(v != int(v) for v in vals):
        return {"n": -1, "sum": [], "sq": []}  # not integer-valued: will be rejected
    return {"n": int(s[0, -1]), "sum": [int(v) for v in s[0, :-1]], "sq": [int(v) for v in s[1, :-1]]}


def inspect_file(path, kind):
    if not os.path.exists(path):
        return {"kind": "absent"}
    try:
        if kind == "npy":
            return {"kind": "npy", "stats": arr_stats(np.load(path))}
        if kind == "npz":
            with np.load(path) as z:
                return {"kind": "npz", "entries": [{"key": k, "stats": arr_stats(z[k])} for k in sorted(z.keys())]}
        return {"kind": "raw", "stats": arr_stats(np.fromfile(path, dtype=np.float64))}
    except Exception as e:
        return {"kind": "unreadable:" + type(e).__name__}


def expected_apply(st, x, axis, norm_var):
    """(x - mean)/std per coefficient of `axis` from exact integer statistics (mean and variance are formed in
    rational arithmetic, so a large offset with a small spread loses nothing)."""
    from fractions import Fraction
    n = st["n"]
    mean_q = [Fraction(int(a), n) for a in st["sum"]]
    var_q = [Fraction(int(b), n) - m * m for b, m in zip(st["sq"], mean_q)]
    mean = np.array([float(m) for m in mean_q], dtype=np.float64)
    var = np.array([float(v) for v in var_q], dtype=np.float64)
    sl = [None] * x.ndim
    sl[axis] = slice(None)
    sl = tuple(sl)
    out = x.astype(np.float64) - mean[sl]
    if norm_var:
        var = np.where(np.isclose(var, 0), 1.0, var)
        out = out / np.sqrt(var)[sl]
    return out


def tolerance(st):
    """Relative tolerance for apply(): E[x^2] - mean^2 in double precision loses about (E[x^2] / variance) ulps."""
    n = st["n"]
    worst = 1.0
    for a, b in zip(st["sum"], st["sq"]):
        var = b / n - (a / n) ** 2
        if var > 1e-8:
            worst = max(worst, (b / n) / var)
    return 1e-12 + 4e-16 * worst


# value regimes of a scenario: (scale, per-coefficient offsets, dtypes the values fit in)
REGIMES = [
    (1, (0, 0, 0), [np.float64, np.float32, np.int32, np.int16, np.int8]),
    (1, (0, 0, 0), [np.float64, np.float32, np.int32, np.int16, np.int8]),
    (20, (0, 0, 0), [np.float64, np.float32, np.int32, np.int16, np.int8]),   # squares do not fit int8
    (60, (0, 0, 0), [np.float64, np.float32, np.int32, np.int16]),             # squares do not fit int16
    (1, (1000, -750, 1000), [np.float64, np.float32, np.int32, np.int16]),     # offset >> spread (log-energy-like)
]


def layout_tensor(vs, rng, dtype):
    """Arrange a list of equal-length vectors as a tensor; returns (tensor, axis)."""
    D, B = len(vs[0]), len(vs)
    a = np.array(vs, dtype=dtype)  # (B, D)
    choice = rng.randrange(7)
    if choice >= 5:
        # the coefficient axis in the middle of a tensor of rank 3 / 4 (batch, coefficient, time)
        b1 = max(d for d in range(1, B + 1) if B % d == 0 and d * d <= B) if choice == 5 else B
        b1 = B // b1 if b1 == 1 else b1
        t = np.ascontiguousarray(a.reshape(b1, B // b1, D).transpose(0, 2, 1))  # (b1, D, B / b1)
        if choice == 6:
            return t.reshape(b1, 1, D, B // b1), rng.choice([2, -2])
        return t, rng.choice([1, -2])
    if choice == 0:
        return a, -1
    if choice == 1:
        return a, 1
    if choice == 2:
        return np.ascontiguousarray(a.T), rng.choice([0, -2])
    if choice == 3:
        return a.reshape(B, 1, D), 2
    return np.ascontiguousarray(a.T).reshape(D, B, 1), -3


def scripts():
    """Deterministic scenarios mixed into the random ones: accumulate, save, accumulate more, save again to the
    same path (same key / other key / no key, both overwrite settings), then load."""
    out = []
    for (pn, kind, fn) in PATHS:
        keys = ["", "k", "0"] if kind == "npz" else [""]  # ("0": a key is a name, never a position in the archive)
        for k1 in keys:
            for k2 in keys:
                for ow1 in (False, True):
                    for ow2 in (False, True):
                        out.append([("acct", 0), ("save", 0, (pn, kind, fn), k1, ow1), ("accv", 0), ("save", 0, (pn, kind, fn), k2, ow2),
                                    ("load", 1, (pn, kind, fn), k2), ("accv", 1), ("save", 1, (pn, kind, fn), k1, ow2), ("load", 2, (pn, kind, fn), k1)])
                        if kind != "npz":
                            break
                    if kind != "npz":
                        break
        # a zero-count template written with numpy: loading it gives an instance without statistics, which cannot be saved
        for k1 in keys:
            for D in (1, 2):
                out.append([("template", 0, (pn, kind, fn), k1, D), ("load", 1, (pn, kind, fn), k1), ("save", 1, (pn, kind, fn), k1, False),
                            ("save", 1, (pn, kind, fn), k1, True), ("accv", 1), ("save", 1, (pn, kind, fn), k1, False), ("load", 2, (pn, kind, fn), k1),
                            ("acct", 0), ("save", 0, (pn, kind, fn), k1, True), ("template", 0, (pn, kind, fn), k1, D), ("load", 0, (pn, kind, fn), k1),
                            ("save", 0, (pn, kind, fn), "", False)])
    return out


def drive(run, tier, rng, focus):
    """Random call sequences; focus 'acc' (C16) or 'file' (C17)."""
    scripted = scripts() if focus == "file" else []
    nprng = np.random.RandomState(rng.randint(0, 2 ** 31 - 1))
    ntr = (300 if tier == "quick" else 2500)
    traces = []
    tmp = tempfile.mkdtemp(prefix="verif_std_")
    cwd0 = os.getcwd()
    vec_pool = {1: [[-3], [2], [0], [5]], 2: [[-1, 2], [0, -3], [4, 4], [-2, -2]], 3: [[1, -1, 0], [-3, 2, 2], [0, 0, -4]]}
    try:
        for tid in range(1, ntr + 1):
            d = os.path.join(tmp, "t%d" % tid)
            os.makedirs(d)
            os.chdir(d)
            norm_var = rng.random() < 0.6
            objs = [post.Standardize(norm_var=norm_var) for _ in range(3)]
            bags = [[] for _ in range(3)]          # python-side bag (incl. what was loaded, as stats)
            base = [None, None, None]              # stats loaded from file (dict) or None
            events = []
            D0 = rng.choice([1, 2, 2, 3])
            scale, offsets, dtypes = REGIMES[tid % len(REGIMES)]

            def pick(D):
                return [scale * a + o for a, o in zip(rng.choice(vec_pool[D]), offsets)]
            nsteps = rng.randint(2, 7)
            script = scripted[tid - 1] if tid <= len(scripted) else None
            if script is not None:
                nsteps = len(script)
            for step in range(nsteps):
                r = rng.random()
                if focus == "acc":
                    op = "accv" if r < 0.4 else "acct" if r < 0.8 else "save" if r < 0.9 else "load"
                else:
                    op = "accv" if r < 0.2 else "acct" if r < 0.3 else "save" if r < 0.7 else "load" if r < 0.94 else "template"
                i = rng.randrange(3)
                forced = None
                if script is not None:
                    forced = script[step]
                    op, i = forced[0], forced[1]
                ev = {"op": op, "err": ""}
                D = D0 if (rng.random() < 0.9 or script is not None) else rng.choice([1, 2, 3])
                if forced is not None and forced[0] == "template":
                    D0 = D = forced[4]
                dtype = rng.choice(dtypes)
                with warnings.catch_warnings():
                    warnings.simplefilter("ignore")
                    try:
                        if op == "accv":
                            v = pick(D)
                            ev.update(i=i + 1, v=v)
                            x = common.relayout(np.array(v, dtype=dtype), rng.choice(common.LAYOUTS))
                            x.flags.writeable = False
                            # a single vector has one axis, which may be named either way (or not at all)
                            ax = rng.choice([None, -1, 0])
                            if ax is None:
                                objs[i].accumulate(x)
                            else:
                                objs[i].accumulate(x, axis=ax)
                            bags[i].append(v)
                        elif op == "acct":
                            vs = [pick(D) for _ in range(rng.randint(2, 3))]
                            t, axis = layout_tensor(vs, rng, dtype)
                            t = common.relayout(t, rng.choice(common.LAYOUTS))
                            ev.update(i=i + 1, vs=vs, layout=[list(t.shape), axis],
                                      flat=[int(v) for v in t.reshape(-1)], shape=list(t.shape), axis1=(axis % t.ndim) + 1)
                            t.flags.writeable = False
                            objs[i].accumulate(t, axis)
                            bags[i].extend(vs)
                        elif op == "template":
                            pn, kind, fn = rng.choice(PATHS)
                            key = rng.choice(["", "k"]) if kind == "npz" else ""
                            if forced is not None:
                                (pn, kind, fn), key = forced[2], forced[3]
                            z = np.zeros((2, D + 1), dtype=np.float64)
                            path = target(d, fn)
                            if kind == "npy":
                                with open(path, "wb") as f:
                                    np.save(f, z)
                            elif kind == "raw":
                                z.tofile(path)
                            else:
                                with open(path, "wb") as f:
                                    np.savez(f, **{key or "arr_0": z})
                            ev.update(p={"name": pn, "kind": kind}, key=key, D=D, file=inspect_file(path, kind))
                        elif op == "save":
                            pn, kind, fn = rng.choice(PATHS)
                            key = rng.choice(["", "", "k", "arr_1", "1", "0"]) if kind == "npz" else ""
                            ow = rng.random() < 0.5
                            if forced is not None:
                                (pn, kind, fn), key, ow = forced[2], forced[3], forced[4]
                            comp = rng.random() < 0.3
                            ev.update(i=i + 1, p={"name": pn, "kind": kind}, key=key, ow=ow, compress=comp)
                            kw = {}
                            if kind == "npz":
                                kw = dict(key=key or None, compress=comp, overwrite=ow)
                            elif rng.random() < 0.6:
                                # the flags are accepted for every kind of target; for .npy / raw they change nothing
                                kw = dict(overwrite=ow, compress=comp)
                                if rng.random() < 0.5:
                                    kw["key"] = rng.choice(["k", "speaker-1"])  # ... and neither does a key: the target stays what its name says
                            try:
                                if kind == "npz" and rng.random() < 0.4:
                                    # (the documented positional order: wfilename, key, compress, overwrite)
                                    objs[i].save(target(d, fn), key or None, comp, ow)
                                else:
                                    objs[i].save(target(d, fn), **kw)
                            finally:
                                ev["file"] = inspect_file(target(d, fn), kind)
                        else:
                            cands = [(pn, kind, fn) for (pn, kind, fn) in PATHS if os.path.exists(target(d, fn))]
                            if not cands:
                                continue
                            pn, kind, fn = rng.choice(cands)
                            key = ""
                            kw = {}
                            if forced is not None:
                                pn, kind, fn = forced[2]
                                if not os.path.exists(target(d, fn)):
                                    continue
                            if forced is not None and kind == "npz":
                                keys = [e["key"] for e in inspect_file(target(d, fn), kind).get("entries", [])]
                                key = forced[3]
                                if (key or "arr_0") not in keys:
                                    continue
                                if key:
                                    kw["key"] = key
                            elif kind == "npz":
                                keys = [e["key"] for e in inspect_file(target(d, fn), kind).get("entries", [])]
                                if "arr_0" in keys and rng.random() < 0.5:
                                    key = ""
                                elif keys:
                                    key = rng.choice(keys)
                                    kw["key"] = key
                                else:
                                    continue
                                if key == "arr_0":
                                    key = ""
                                    kw = {}
                            if kind == "raw":
                                kw["force_as"] = "file"
                            ev.update(j=i + 1, p={"name": pn, "kind": kind}, key=key)
                            new = post.Standardize(target(d, fn), norm_var=norm_var, **kw)
                            objs[i] = new
                            bags[i] = []
                            base[i] = stats_of(new)
                    except (ValueError, IOError, TypeError, KeyError, OverflowError) as e:
                        ev["err"] = type(e).__name__
                        if isinstance(e, OSError):
                            ev["err"] = "IOError"
                ev["stats"] = stats_of(objs[i])
                events.append(ev)
                run.evaluations += 1
                # property level: apply() against the valuation from the exact statistics of the python-side bag
                check_apply(run, objs[i], bags[i], base[i], norm_var, nprng, ev)
                if ev["err"]:
                    # after a refused call the objects stay usable; keep going
                    pass
            traces.append({"tid": tid, "norm_var": norm_var, "events": events})
            os.chdir(cwd0)
            shutil.rmtree(d, ignore_errors=True)
    finally:
        os.chdir(cwd0)
        shutil.rmtree(tmp, ignore_errors=True)
    rejected, tr = common.validate_traces_parallel("MC_TraceStandardize", "TraceStandardize.cfg", traces, shards=8)
    if tr.violated:
        run.violation({"kind": "standardize_trace_invariant_" + str(tr.violated), "detail": tr.errtext[-2500:]})
    run.traces += len(traces)
    run.states += tr.distinct
    run.transitions += tr.generated
    byid = {t["tid"]: t for t in traces}
    for (tid, line, clause) in rejected:
        t = byid[tid]
        run.violation({"kind": "standardize_trace_rejected_" + clause, "clause": clause, "event": line,
                       "failing_event": t["events"][line - 1], "trace": t})
    run.sample(traces[1])
    if not rejected and not tr.violated:
        victim = next(t for t in traces if any(e["op"] in ("accv", "acct") and not e["err"] and e["stats"]["n"] > 0 for e in t["events"]))

        def corrupt(t):
            e = next(e for e in t["events"] if e["op"] in ("accv", "acct") and not e["err"] and e["stats"]["n"] > 0)
            e["stats"]["n"] += 1
        common.assert_binding_live(run, "MC_TraceStandardize", "TraceStandardize.cfg", victim, corrupt, "the observed vector count off by one")


def check_apply(run, obj, bag, base, norm_var, nprng, ev):
    st = None
    if base is not None and base["n"] > 0:
        st = {"n": base["n"], "sum": list(base["sum"]), "sq": list(base["sq"])}
    for v in bag:
        if st is None:
            st = {"n": 0, "sum": [0] * len(v), "sq": [0] * len(v)}
        if len(v) != len(st["sum"]):
            continue  # refused accumulate (dimension mismatch) is not part of the bag
        st["n"] += 1
        st["sum"] = [a + b for a, b in zip(st["sum"], v)]
        st["sq"] = [a + b * b for a, b in zip(st["sq"], v)]
    have = st is not None and st["n"] > 0
    if bool(obj.have_stats) != have:
        run.violation({"kind": "have_stats_wrong", "have_stats": bool(obj.have_stats), "expected": have, "after": ev})
        return
    if not have:
        return
    D = len(st["sum"])
    for shape, axis in (((4, D), -1), ((D, 3), 0), ((2, D, 3), 1), ((D,), -1)):
        x = nprng.randint(-5, 6, size=shape).astype(np.float32 if shape[0] == 4 else np.float64)
        centre = np.round(np.array(st["sum"], dtype=np.float64) / st["n"])
        sl_ = [None] * x.ndim
        sl_[axis % x.ndim] = slice(None)
        x = (x + centre[tuple(sl_)]).astype(x.dtype)  # probes near the data
        x = common.relayout(x, common.LAYOUTS[(len(bag) + len(shape)) % len(common.LAYOUTS)])
        x.flags.writeable = False
        with warnings.catch_warnings():
            warnings.simplefilter("ignore")
            try:
                got = obj.apply(x, axis=axis)
            except Exception as e:
                run.violation({"kind": "apply_raised_with_stats", "shape": list(shape), "axis": axis, "error": repr(e), "after": ev})
                return
        want = expected_apply(st, x, axis % x.ndim, norm_var)
        tol = tolerance(st)
        if got.dtype != np.float64 or got.shape != want.shape or not np.allclose(got, want, rtol=tol, atol=tol):
            run.violation({"kind": "apply_differs_from_statistics_given", "shape": list(shape), "axis": axis, "norm_var": norm_var,
                           "stats": st, "result_dtype": str(got.dtype), "after": ev})
            return
    # wrong feature dimension
    try:
        obj.apply(np.zeros((3, D + 1)))
        run.violation({"kind": "apply_dim_mismatch_no_error", "after": ev})
    except ValueError:
        pass
