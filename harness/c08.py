"""C08  Alias / JSON configuration builds the same objects as explicit construction.

S  TLC: Alias.tla - every registration sequence up to a bound, every query; the
   stack walk of alias.py step by step against the definition (last registered
   matching descendant-or-self, ValueError when none), termination; the known
   cross-branch finding is characterised exactly (KnownCrossBranch).
B  code -> spec: every class table up to a bound is created on a real
   AliasedFactory root with type(); every (root, alias) query result is
   recorded and validated by TraceAlias; the live registry of pydrobert.speech
   is reflected into the same trace format (every alias of every concrete class
   from its family root, unknown aliases); alias_factory_subclass_from_arg's
   table; JSON-round-tripped nested configurations against explicit
   construction, bitwise.
"""
import collections
import collections.abc
import itertools
import json
import random
import types
import warnings

import numpy as np

import common
from pydrobert.speech import alias as A
from pydrobert.speech import compute, filters, scales, pre, post


def matcher_cross_branch(record, params):
    return record.get("kind") == "alias_last_registered_wins_cross_branch"


def class_tables(maxc, aliases):
    """All class tables: class k >= 2 has a parent among 1..k-1 and own aliases a subset or inherit."""
    subsets = [list(c) for r in range(len(aliases) + 1) for c in itertools.combinations(aliases, r)]
    own_choices = [("own", s) for s in subsets] + [("inherit", None)]

    def rec(table):
        yield table
        if len(table) < maxc:
            for p in range(1, len(table) + 1):
                for kind, s in own_choices:
                    yield from rec(table + [{"parent": p, "inherit": kind == "inherit", "own": s or []}])
    yield from rec([{"parent": 0, "inherit": False, "own": []}])


def build(table):
    """Real classes.  Class 1 is a fresh AliasedFactory subclass (the family root)."""
    classes = []
    for k, row in enumerate(table):
        base = A.AliasedFactory if row["parent"] == 0 else classes[row["parent"] - 1]
        ns = {}
        if not row["inherit"]:
            ns["aliases"] = set(row["own"])
        # (names that sort in the REVERSE of the registration order: "registered last" is about time, not about names)
        classes.append(type("K%02d" % (60 - k), (base,), ns))
    return classes


def _queries(classes, aliases):
    out = []
    for r in range(1, len(classes) + 1):
        for a in aliases:
            try:
                inst = classes[r - 1].from_alias(a)
                res = classes.index(type(inst)) + 1 if type(inst) in classes else -2
            except ValueError:
                res = 0
            except Exception:
                res = -1
            out.append({"root": r, "alias": a, "result": res})
    return out


def query_all(table, aliases, history=None):
    """Registers the classes one at a time on a real AliasedFactory root and asks every (root, alias) query after
    each registration.  The answers after the last registration are returned (TLC validates them); `history`
    receives the answers after each earlier registration, which must be those of the shorter table - the registry
    is a function of the classes defined so far, not of the look-ups made so far."""
    classes = []
    for k, row in enumerate(table):
        base = A.AliasedFactory if row["parent"] == 0 else classes[row["parent"] - 1]
        ns = {}
        if not row["inherit"]:
            ns["aliases"] = set(row["own"])
        # (names that sort in the REVERSE of the registration order: "registered last" is about time, not about names)
        classes.append(type("K%02d" % (60 - k), (base,), ns))
        q = _queries(classes, aliases)
        if history is not None and k + 1 < len(table):
            history.append((k + 1, q))
    return q


FAMILY_ARGS = {
    "ScalingFunction": [dict(), dict(low_hz=20.0)],
    "LinearFilterBank": [dict(), dict(scaling_function="mel")],
    "WindowFunction": [dict()],
    "FrameComputer": [dict(bank="fbank")],
    "PreProcessor": [dict()],
    "PostProcessor": [dict(), dict(num_deltas=1), dict(num_vectors=2)],
}


def live_registry(run):
    """The real class tree of each family as a TraceAlias trace."""
    traces = []
    fams = [scales.ScalingFunction, filters.LinearFilterBank, filters.WindowFunction, compute.FrameComputer,
            pre.PreProcessor, post.PostProcessor]
    tid = 1000000
    foreign = set()
    for fam in fams:
        stack = [fam]
        while stack:
            c = stack.pop()
            foreign |= set(getattr(c, "aliases", set()))
            stack += [ch for ch in c.__subclasses__() if ch.__module__.startswith("pydrobert.speech")]
    for fam in fams * 2:  # twice: the answers may not depend on the look-ups made before
        order = []

        def walk(c):
            order.append(c)
            for ch in c.__subclasses__():
                if ch.__module__.startswith("pydrobert.speech"):
                    walk(ch)
        walk(fam)
        table = []
        for c in order:
            parent = 0 if c is fam else order.index([b for b in c.__mro__[1:] if b in order][0]) + 1
            inherit = "aliases" not in c.__dict__
            table.append({"parent": parent, "inherit": inherit, "own": sorted(c.__dict__.get("aliases", set())), "name": c.__name__})
        all_aliases = sorted({a for c in order for a in getattr(c, "aliases", set())}) + ["no-such-alias", ""]
        all_aliases += [a.upper() for a in all_aliases[:4] if a.upper() != a] + [a.capitalize() for a in all_aliases[:2] if a.capitalize() != a]
        # aliases that only other families know are unknown here
        all_aliases += sorted(foreign - set(all_aliases))
        queries = []
        for a in all_aliases:
            res = None
            for kw in FAMILY_ARGS[fam.__name__]:
                try:
                    with warnings.catch_warnings():
                        warnings.simplefilter("ignore")
                        inst = fam.from_alias(a, **kw)
                    res = order.index(type(inst)) + 1 if type(inst) in order else -2  # a class outside the family
                    break
                except ValueError:
                    # (the wording of the message is nobody's contract: "unknown alias" is recognised by no class of the
                    # family carrying it; otherwise it was a constructor that refused these arguments)
                    if not any(a in getattr(c, "aliases", set()) for c in order):
                        res = 0
                        break
                    continue
                except TypeError:
                    continue
            if res is None:
                # from_alias raised TypeError for every argument set.  If every class of the family that carries the
                # alias can be constructed directly from one of those sets, from_alias did not construct any of them.
                cands = [c for c in order if a in getattr(c, "aliases", set())]

                def buildable(c):
                    for kw in FAMILY_ARGS[fam.__name__]:
                        try:
                            with warnings.catch_warnings():
                                warnings.simplefilter("ignore")
                                c(**kw)
                            return True
                        except TypeError:
                            continue
                    return False
                if all(buildable(c) for c in cands):  # (no candidate at all: only ValueError is right)
                    res = -1
                else:
                    raise common.MachineryError("could not instantiate alias %r of %s with any argument set" % (a, fam.__name__))
            queries.append({"root": 1, "alias": a, "result": res})
            run.evaluations += 1
        tid += 1
        traces.append({"tid": tid, "family": fam.__name__, "classes": table, "queries": queries})
        # clause 1 of the property, directly: every alias of every concrete class resolves to that class
        # unless a later-registered class of the family carries the same alias
    return traces


class PlainMapping(collections.abc.Mapping):
    """A mapping that is not a dict."""

    def __init__(self, d):
        self._d = dict(d)

    def __getitem__(self, k):
        return self._d[k]

    def __iter__(self):
        return iter(self._d)

    def __len__(self):
        return len(self._d)


def chain(d):
    keys = sorted(d)
    return collections.ChainMap({k: d[k] for k in keys[::2]}, {k: d[k] for k in keys[1::2]})


chain.__name__ = "ChainMap"


class Frozen(dict):
    """A mapping that refuses mutation."""

    def _no(self, *a, **k):
        raise TypeError("mapping given to alias_factory_subclass_from_arg was mutated")
    __setitem__ = __delitem__ = pop = popitem = clear = update = setdefault = _no


MAPPING_KINDS = (dict, Frozen, types.MappingProxyType, collections.OrderedDict, PlainMapping, chain)


def remap(cfg, rng):
    """the same nested configuration with each mapping level presented as some other kind of mapping"""
    if isinstance(cfg, dict):
        return rng.choice(MAPPING_KINDS)({k: remap(v, rng) for k, v in cfg.items()})
    return cfg


def from_arg_table(run):
    f = A.alias_factory_subclass_from_arg
    W = filters.WindowFunction
    inst = filters.HammingWindow()
    cases = []
    if f(W, inst) is not inst:
        run.violation({"kind": "from_arg_instance_not_returned_unchanged"})
    if type(f(W, "hann")) is not filters.HannWindow:
        run.violation({"kind": "from_arg_string_alias"})
    # a string is the alias with default arguments: a NEW default-constructed object every time
    g1 = f(W, "gamma")
    g1.order = 9
    g2 = f(W, "gamma")
    g3 = f(W, {"name": "gamma"})
    if g2 is g1 or g3 is g1 or g2.order != filters.GammaWindow().order or g3.order != filters.GammaWindow().order:
        run.violation({"kind": "from_arg_string_alias", "what": "a second look-up returns the object of the first (or its state)"})
    s1 = f(post.PostProcessor, "cmvn")
    s1.accumulate(np.arange(12.0).reshape(4, 3))
    s2 = f(post.PostProcessor, "cmvn")
    if s2 is s1 or s2.have_stats:
        run.violation({"kind": "from_arg_string_alias", "what": "a second 'cmvn' look-up carries the statistics accumulated on the first"})
    g = f(W, {"alias": "gamma", "order": 2})
    if type(g) is not filters.GammaWindow or g.order != 2:
        run.violation({"kind": "from_arg_mapping_alias_kwargs"})
    g = f(W, {"name": "gamma", "order": 3, "peak": 0.5})
    if type(g) is not filters.GammaWindow or (g.order, g.peak) != (3, 0.5):
        run.violation({"kind": "from_arg_mapping_name_kwargs"})
    # 'alias' takes precedence over 'name'; 'name' then stays an ordinary keyword argument
    class Named(filters.WindowFunction):
        aliases = {"verif-named"}

        def __init__(self, name="default"):
            self.name = name

        def get_impulse_response(self, width):
            return np.ones(width)
    try:
        n = f(W, {"alias": "verif-named", "name": "hamming"})
        if type(n) is not Named or n.name != "hamming":
            run.violation({"kind": "from_arg_alias_does_not_take_precedence_over_name", "got": type(n).__name__,
                           "name_kwarg": getattr(n, "name", None)})
        # ... whatever the order in which the two keys were written (a JSON object keeps its key order)
        n = f(W, json.loads('{"name": "hamming", "alias": "verif-named"}'))
        if type(n) is not Named or n.name != "hamming":
            run.violation({"kind": "from_arg_alias_does_not_take_precedence_over_name", "got": type(n).__name__,
                           "name_kwarg": getattr(n, "name", None), "key_order": ["name", "alias"]})
        n = f(W, {"name": "verif-named"})
        if type(n) is not Named or n.name != "default":
            run.violation({"kind": "from_arg_name_as_alias", "got": type(n).__name__})
        # a JSON null is a value like any other: it is passed, it does not mean "use the default"
        n = f(W, json.loads('{"alias": "verif-named", "name": null}'))
        if type(n) is not Named or n.name is not None:
            run.violation({"kind": "from_arg_null_value_not_passed_as_keyword_argument", "got": type(n).__name__,
                           "name_kwarg": repr(getattr(n, "name", "?"))})
        # 'alias' wins by being PRESENT, not by being truthy: an empty alias is an alias like any other
        try:
            got = f(W, {"alias": "", "name": "hann"})
            run.violation({"kind": "from_arg_alias_does_not_take_precedence_over_name", "got": type(got).__name__,
                           "mapping": {"alias": "", "name": "hann"}, "what": "no class goes by the empty alias: ValueError"})
        except ValueError:
            pass
        except Exception as e:
            run.violation({"kind": "from_arg_unknown_alias_wrong_exception", "mapping": {"alias": "", "name": "hann"}, "raised": type(e).__name__})
        Named.aliases = {"verif-named", ""}
        n = f(W, {"alias": "", "name": "hann"})
        if type(n) is not Named or n.name != "hann":
            run.violation({"kind": "from_arg_alias_does_not_take_precedence_over_name", "got": type(n).__name__,
                           "name_kwarg": repr(getattr(n, "name", None)), "mapping": {"alias": "", "name": "hann"},
                           "what": "a class registered under the empty alias"})
        # "the one registered last wins" whatever travels with the alias: if it does not take the keyword arguments, that
        # is an error of the call - never a reason to build the class registered before it
        class Newer(filters.WindowFunction):
            aliases = {"verif-named"}

            def __init__(self):
                pass

            def get_impulse_response(self, width):
                return np.zeros(width)
        try:
            Named.aliases = {"verif-named"}
            try:
                n = f(W, {"alias": "verif-named", "name": "x"})
            except Exception:
                n = None
            if isinstance(n, Named):
                run.violation({"kind": "from_arg_last_registered_does_not_win", "got": "Named (registered first)",
                               "what": "the class registered last does not accept the keyword arguments"})
            if type(f(W, "verif-named")) is not Newer:
                run.violation({"kind": "from_arg_last_registered_does_not_win", "got": type(f(W, "verif-named")).__name__})
        finally:
            Newer.aliases = set()
    finally:
        Named.aliases = set()
    for m, cls in (({"alias": "gamma", "order": 2}, filters.GammaWindow), ({"name": "hann"}, filters.HannWindow),
                   ({"alias": "hamming"}, filters.HammingWindow)):
        for wrap in MAPPING_KINDS:
            arg = wrap(dict(m))
            before = dict(arg)
            try:
                got = f(W, arg)
            except TypeError as e:
                run.violation({"kind": "from_arg_mutates_mapping", "mapping": before, "wrapper": wrap.__name__, "error": str(e)})
                continue
            except Exception as e:
                run.violation({"kind": "from_arg_mapping_not_treated_as_keyword_arguments", "mapping": before, "wrapper": wrap.__name__, "error": repr(e)})
                continue
            if dict(arg) != before:
                run.violation({"kind": "from_arg_mutates_mapping", "mapping": before, "wrapper": wrap.__name__, "after": dict(arg)})
            if type(got) is not cls or (cls is filters.GammaWindow and got.order != 2):
                run.violation({"kind": "from_arg_mapping_not_treated_as_keyword_arguments", "mapping": before, "wrapper": wrap.__name__,
                               "got": type(got).__name__, "definition": cls.__name__})
            run.evaluations += 1
    # classes whose constructor collects further keywords (**kwargs: what numpy.pad takes): the mapping is passed whole
    xs = np.arange(24, dtype=np.float64).reshape(6, 4) ** 2
    for (cfgm, mk) in (({"name": "deltas", "num_deltas": 1, "pad_mode": "constant", "constant_values": 2.5},
                        lambda: post.Deltas(1, pad_mode="constant", constant_values=2.5)),
                       ({"alias": "deltas", "num_deltas": 2, "pad_mode": "linear_ramp", "end_values": -3.0, "context_window": 1},
                        lambda: post.Deltas(2, pad_mode="linear_ramp", end_values=-3.0, context_window=1)),
                       ({"name": "stack", "num_vectors": 3, "pad_mode": "constant", "constant_values": -1.0, "time_axis": 0},
                        lambda: post.Stack(3, pad_mode="constant", constant_values=-1.0, time_axis=0)),
                       ({"name": "stack", "num_vectors": 2, "pad_mode": "reflect", "reflect_type": "odd"},
                        lambda: post.Stack(2, pad_mode="reflect", reflect_type="odd"))):
        for wrap in MAPPING_KINDS[:3]:
            run.evaluations += 1
            try:
                got = f(post.PostProcessor, wrap(json.loads(json.dumps(cfgm)))).apply(xs)
                want = mk().apply(xs)
            except Exception as e:
                run.violation({"kind": "from_arg_mapping_not_treated_as_keyword_arguments", "mapping": cfgm, "wrapper": wrap.__name__,
                               "error": repr(e)})
                continue
            if got.shape != want.shape or got.tobytes() != want.tobytes():
                run.violation({"kind": "from_arg_mapping_not_treated_as_keyword_arguments", "mapping": cfgm, "wrapper": wrap.__name__,
                               "what": "result differs from explicit construction with the same keywords"})
    for bad in ("no-such", {"alias": "no-such"}, {"name": "no-such"}):
        try:
            f(W, bad)
            run.violation({"kind": "from_arg_unknown_alias_no_error", "arg": repr(bad)})
        except ValueError:
            pass
    run.evaluations += 8


def config_trees(run, tier, rng):
    """Nested JSON-round-tripped configurations against explicit construction, bitwise."""
    nprng = np.random.RandomState(rng.randint(0, 2 ** 31 - 1))
    x = nprng.randn(2000)
    scale_specs = [("mel", lambda: scales.MelScaling()), ("bark", lambda: scales.BarkScaling()),
                   ({"name": "linear", "low_hz": 10.0, "slope_hz": 2.0}, lambda: scales.LinearScaling(10.0, 2.0)),
                   ({"alias": "uniform", "low_hz": 0.0}, lambda: scales.LinearScaling(0.0)),
                   ({"name": "octave", "low_hz": 30.0}, lambda: scales.OctaveScaling(30.0))]
    bank_specs = [
        (["tri", "triangular"], lambda s, **k: filters.TriangularOverlappingFilterBank(s, **k), True),
        (["gabor"], lambda s, **k: filters.GaborFilterBank(s, **k), True),
        (["gammatone", "tonebank"], lambda s, **k: filters.ComplexGammatoneFilterBank(s, **k), True),
        (["fbank"], lambda s, **k: filters.Fbank(**k), False),
    ]
    win_specs = [("hamming", filters.HammingWindow), ("hann", filters.HannWindow), ("hanning", filters.HannWindow),
                 ("blackman", filters.BlackmanWindow), ("black", filters.BlackmanWindow), ("bartlett", filters.BartlettWindow),
                 ("tri", filters.BartlettWindow), ("triangular", filters.BartlettWindow),
                 ({"name": "gamma", "order": 3}, lambda: filters.GammaWindow(order=3))]
    comp_specs = [(["stft"], "stft"), (["si"], "si")]
    trees = []
    for (caliases, ckind) in comp_specs:
        for (baliases, bmk, takes_scale) in bank_specs:
            for bal in baliases:
                for (sspec, smk) in (scale_specs if takes_scale else scale_specs[:1]):
                    for (wspec, wmk) in win_specs:
                        for key in ("alias", "name"):
                            for cal in caliases:
                                trees.append((cal, ckind, bal, bmk, takes_scale, sspec, smk, wspec, wmk, key))
    if tier == "quick":
        rng.shuffle(trees)
        # aliases shared between families (bank 'tri' / window 'tri') are always included
        shared = [t for t in trees if isinstance(t[7], str) and t[7] in ("tri", "triangular") and t[2] in ("tri", "triangular")]
        trees = shared[:24] + trees[:160]
    for (cal, ckind, bal, bmk, takes_scale, sspec, smk, wspec, wmk, key) in trees:
        bank_cfg = {key: bal, "num_filts": 4, "sampling_rate": 8000}
        if takes_scale:
            bank_cfg["scaling_function"] = sspec
        cfg = {key: cal, "bank": bank_cfg, "window_function": wspec, "frame_shift_ms": 8}
        if ckind == "stft":
            cfg["frame_length_ms"] = 20
        cfg = json.loads(json.dumps(cfg))
        snapshot = json.dumps(cfg, sort_keys=True)
        with warnings.catch_warnings():
            warnings.simplefilter("ignore")
            built = A.alias_factory_subclass_from_arg(compute.FrameComputer, cfg)
            other = remap(cfg, rng)
            try:
                built2 = A.alias_factory_subclass_from_arg(compute.FrameComputer, other)
                a2 = built2.compute_full(x)
            except Exception as e:
                built2, a2 = None, None
                run.violation({"kind": "config_tree_of_other_mapping_kinds_raised", "config": json.loads(snapshot), "error": repr(e)})
            bank = bmk(smk(), num_filts=4, sampling_rate=8000)
            win = wmk()
            if ckind == "stft":
                explicit = compute.STFTFrameComputer(bank, frame_length_ms=20, frame_shift_ms=8, window_function=win)
            else:
                explicit = compute.SIFrameComputer(bank, frame_shift_ms=8, window_function=win)
            a, b = built.compute_full(x), explicit.compute_full(x)
        run.evaluations += 1
        if json.dumps(cfg, sort_keys=True) != snapshot:
            run.violation({"kind": "config_tree_mutated", "config": json.loads(snapshot)})
        if a2 is not None and (type(built2) is not type(explicit) or a2.shape != b.shape or a2.tobytes() != b.tobytes()):
            run.violation({"kind": "config_tree_of_other_mapping_kinds_differs", "config": json.loads(snapshot)})
        if type(built) is not type(explicit) or a.shape != b.shape or a.tobytes() != b.tobytes():
            run.violation({"kind": "config_tree_features_differ_from_explicit_construction", "config": json.loads(snapshot),
                           "built": type(built).__name__, "explicit": type(explicit).__name__})
    # explicit construction with POSITIONAL arguments in the documented order (class docstrings) against the same values
    # in a configuration mapping
    with warnings.catch_warnings():
        warnings.simplefilter("ignore")
        for (power, log) in ((True, False), (False, True), (None, None), (True, None)):
            bank = filters.GaborFilterBank("mel", num_filts=3, sampling_rate=8000)
            win = filters.HannWindow()
            pos_si = compute.SIFrameComputer(bank, 8, "causal", True, False, win, power, log)
            cfg_si = A.alias_factory_subclass_from_arg(compute.FrameComputer, json.loads(json.dumps(
                {"name": "si", "bank": {"name": "gabor", "scaling_function": "mel", "num_filts": 3, "sampling_rate": 8000}, "frame_shift_ms": 8,
                 "frame_style": "causal", "include_energy": True, "pad_to_nearest_power_of_two": False, "window_function": "hann",
                 "use_power": power, "use_log": log})))
            pos_st = compute.STFTFrameComputer(bank, 20, 8, "centered", True, False, win, log, power, True)
            cfg_st = A.alias_factory_subclass_from_arg(compute.FrameComputer, json.loads(json.dumps(
                {"name": "stft", "bank": {"name": "gabor", "scaling_function": "mel", "num_filts": 3, "sampling_rate": 8000}, "frame_length_ms": 20,
                 "frame_shift_ms": 8, "frame_style": "centered", "include_energy": True, "pad_to_nearest_power_of_two": False,
                 "window_function": "hann", "use_log": log, "use_power": power, "kaldi_shift": True})))
            for nm, a_, b_ in (("si", pos_si, cfg_si), ("stft", pos_st, cfg_st)):
                fa, fb = a_.compute_full(x), b_.compute_full(x)
                run.evaluations += 1
                if fa.shape != fb.shape or fa.tobytes() != fb.tobytes():
                    run.violation({"kind": "config_tree_features_differ_from_explicit_construction", "computer": nm, "use_power": power, "use_log": log,
                                   "what": "explicit construction with positional arguments in the documented order"})
    run.extra["config_trees"] = len(trees)
    run.sample({"config_tree": cfg})


# the aliases the pinned tree documents, per family (class docstrings / docs/source): what "every alias of every concrete
# class" quantifies over.  New classes or new alias names in a later tree are not this table's business.
DOCUMENTED = {
    "ScalingFunction": {"LinearScaling": ["linear", "uniform"], "OctaveScaling": ["octave"], "MelScaling": ["mel"], "BarkScaling": ["bark"]},
    "LinearFilterBank": {"TriangularOverlappingFilterBank": ["tri", "triangular"], "Fbank": ["fbank"], "GaborFilterBank": ["gabor"],
                         "ComplexGammatoneFilterBank": ["gammatone", "tonebank"]},
    "WindowFunction": {"BartlettWindow": ["bartlett", "tri", "triangular"], "BlackmanWindow": ["black", "blackman"], "HammingWindow": ["hamming"],
                       "HannWindow": ["hann", "hanning"], "GammaWindow": ["gamma"]},
    "FrameComputer": {"ShortTimeFourierTransformFrameComputer": ["stft"], "ShortIntegrationFrameComputer": ["si"]},
    "PreProcessor": {"Dither": ["dither", "dithering"], "Preemphasize": ["preemph", "preemphasis", "preemphasize"]},
    "PostProcessor": {"Standardize": ["cmvn", "normalize", "standardize", "unit"], "Deltas": ["deltas"], "Stack": ["stack"]},
}


def documented_aliases(run):
    """Every documented alias resolves to its class within its family; an alias documented only for classes of ANOTHER
    family does not make one of this family's documented classes appear (the alias sets of unrelated classes are
    separate things)."""
    fams = {"ScalingFunction": scales.ScalingFunction, "LinearFilterBank": filters.LinearFilterBank, "WindowFunction": filters.WindowFunction,
            "FrameComputer": compute.FrameComputer, "PreProcessor": pre.PreProcessor, "PostProcessor": post.PostProcessor}
    for fname, fam in fams.items():
        own = {a: cn for cn, als in DOCUMENTED[fname].items() for a in als}
        foreign = sorted({a for g, tab in DOCUMENTED.items() if g != fname for als in tab.values() for a in als} - set(own))
        for a in sorted(own) + foreign:
            got = None
            for kw in FAMILY_ARGS[fname]:
                try:
                    with warnings.catch_warnings():
                        warnings.simplefilter("ignore")
                        got = type(fam.from_alias(a, **kw)).__name__
                    break
                except ValueError:
                    if a in own:
                        continue
                    got = "ValueError"
                    break
                except TypeError:
                    got = "TypeError"  # (a class was found and refused these arguments: try the next set)
                    continue
            run.evaluations += 1
            if a in own and got != own[a]:
                run.violation({"kind": "documented_alias_does_not_resolve_to_its_class", "family": fname, "alias": a, "documented": own[a], "got": got})
            if a not in own and got in DOCUMENTED[fname] or (a not in own and got == "TypeError"):
                run.violation({"kind": "alias_of_another_family_resolves_here", "family": fname, "alias": a, "got": got,
                               "what": "documented only for a class of another family"})


def run(tier, seed):
    run = common.Run("C08", tier, seed, matchers={"alias_cross_branch": matcher_cross_branch})
    rng = random.Random(seed)
    r = common.tlc("Alias", "Alias_%s.cfg" % tier, timeout=3000)
    if r.violated:
        run.violation({"kind": "model_" + r.violated, "module": "Alias", "detail": r.errtext[-3000:]})
    run.add_tlc("Alias", r)
    r = common.tlc("Alias", "Alias_asstated.cfg", workers=8, timeout=900)
    if r.violated == "C08_LastRegisteredWins":
        # model-level statement of the known finding (TLC's counter-example is the cross-branch hierarchy)
        run.extra["model_counterexample_to_property_as_stated"] = r.errtext[-1500:]
    elif r.violated:
        run.violation({"kind": "model_" + r.violated, "module": "Alias(asstated)", "detail": r.errtext[-3000:]})
    r = common.tlc("Alias", "Alias_canary.cfg", workers=8, timeout=900)
    if not r.violated:
        raise common.MachineryError("canary: pre-order walk was not refuted")
    run.extra.setdefault("canaries", []).append({"module": "Alias", "variant": "WalkOrder=pre", "refuted_by": r.violated})
    # code -> spec
    aliases = ["x", "Xy"]  # (matched as written: "Xy" is neither "xy" nor "x")
    maxc = 4 if tier == "quick" else 5
    traces, tid = [], 0
    fresh, nhist = {}, 0
    for table in class_tables(maxc, aliases):
        tid += 1
        hist = []
        traces.append({"tid": tid, "classes": table, "queries": query_all(table, aliases, hist)})
        fresh[json.dumps(table, sort_keys=True)] = traces[-1]["queries"]
        run.evaluations += len(traces[-1]["queries"])
        for (k, q) in hist:
            nhist += len(q)
            want = fresh[json.dumps(table[:k], sort_keys=True)]
            if q != want:
                bad = next(i for i in range(len(q)) if q[i] != want[i])
                run.violation({"kind": "alias_answer_depends_on_what_was_registered_or_looked_up_later", "classes": table,
                               "registered_so_far": k, "query": q[bad], "same_classes_built_alone": want[bad]})
                break
    run.extra["queries_between_registrations"] = nhist
    ntab = len(traces)
    traces += live_registry(run)
    rejected, tr = common.validate_traces_parallel("TraceAlias", "TraceAlias.cfg", traces, shards=12)
    run.traces += len(traces)
    run.states += tr.distinct
    run.transitions += tr.generated
    byid = {t["tid"]: t for t in traces}
    for (tid_, line, clause) in rejected:
        t = byid[tid_]
        q = t["queries"][line - 1]
        if clause.endswith("/known_cross_branch"):
            run.violation({"kind": "alias_last_registered_wins_cross_branch", "classes": t["classes"], "query": q})
        else:
            run.violation({"kind": "alias_" + clause, "family": t.get("family"), "classes": t["classes"], "query": q})
    run.sample(traces[40])
    clean = next(t for t in traces if t["tid"] not in {r[0] for r in rejected} and any(q["result"] > 0 for q in t["queries"]))

    def corrupt(t):
        q = next(q for q in t["queries"] if q["result"] > 0)
        q["result"] = 0
    common.assert_binding_live(run, "TraceAlias", "TraceAlias.cfg", clean, corrupt, "a resolved query recorded as ValueError")
    run.sample({"live_registry": traces[ntab]["family"], "classes": [c["name"] for c in traces[ntab]["classes"]], "queries": traces[ntab]["queries"][:6]})
    from_arg_table(run)
    documented_aliases(run)
    config_trees(run, tier, rng)
    run.extra["class_tables"] = ntab
    run.extra["rule"] = "every class table with <= %d classes over 2 aliases (own subset or inherited), every (root, alias) query; live registry of 6 families; from_arg table; nested config trees" % maxc
    return run.finish()


def replay(path):
    v = json.load(open(path))
    print(json.dumps(v, indent=1)[:3000])
    if "classes" in v and "query" in v and not v.get("family"):
        q = query_all(v["classes"], [v["query"]["alias"]])
        print("re-run on the real AliasedFactory:", [x for x in q if x["root"] == v["query"]["root"]])
    return 0
