"""C01  Chunked streaming equals whole-signal computation, for every chunking.

1. TLC exhausts StftStream (all configurations, all chunkings incl. empty
   chunks, multi-utterance) and SiStream against the definitions.
2. The real computers are driven through every composition of every N up to a
   bound (plus longer signals with sampled chunkings and interleaved empty
   chunks); every call is recorded with the token content of the frames and
   validated by TLC against TraceStftDef / TraceSi (code -> spec).
3. Value level: the concatenated compute_chunk/finalize outputs are compared
   with compute_full's output on the same signal, real banks and real sizes
   included (the property's own observable).
"""
import random

import numpy as np

import common
import stubs
import stft_trace as T
import si_model
import repo_tests


def stft_configs(tier):
    Ls = range(2, 6) if tier == "quick" else range(2, 9)
    return [(L, S, st) for L in Ls for S in range(1, L + 1) for st in stubs.ALL_STYLES]


def gapped_configs(tier):
    """frame shift longer than the frame: compute_full only (C02 / C14), outside C01's precondition"""
    Ls = (2, 3, 5) if tier == "quick" else (2, 3, 4, 5, 7)
    return [(L, S, st) for L in Ls for S in (L + 1, 2 * L + 1, 2 * L + 3) for st in stubs.ALL_STYLES]


def chunkings_for(N, L, S, rng, ncomp_max, nsamp):
    if N <= ncomp_max:
        out = list(T.compositions(N))
    else:
        out = [[N], [1] * N, [N - 1, 1], [1, N - 1]]
        k = max(1, L - 1)
        out.append([k] * (N // k) + ([N % k] if N % k else []))
        out.append([L] * (N // L) + ([N % L] if N % L else []))
        for _ in range(nsamp):
            rest, c = N, []
            while rest:
                x = rng.randint(1, min(rest, L + S))
                c.append(x)
                rest -= x
            out.append(c)
    return out


def record_stft(run, tier, rng):
    traces, tid = [], 0
    ncomp_max = 6 if tier == "quick" else 9
    nsamp = 3 if tier == "quick" else 10
    meta = {}
    for (L, S, st) in stft_configs(tier):
        maxn = 2 * L + S + (2 if tier == "quick" else 4)
        for N in range(0, maxn + 1):
            c = stubs.make_stft(L, S, st)
            x = common.relayout(T.signal(1, 0, N), common.LAYOUTS[(N + L + len(st)) % len(common.LAYOUTS)])  # (compute_full sees any layout too)
            for comp in chunkings_for(N, L, S, rng, ncomp_max, nsamp):
                empties = ()
                if rng.random() < 0.3:
                    empties = tuple(sorted(rng.sample(range(len(comp) + 1), rng.randint(1, min(2, len(comp) + 1)))))
                rec = T.Recorder(c)
                for op in T.history_for_composition(comp, empties):
                    rec.run(op)
                tid += 1
                traces.append({"tid": tid, "cfg": {"L": L, "S": S, "st": stubs.spec_style(st)},
                               "events": [{k: e[k] for k in ("a", "err", "fr", "st") if k in e} | ({"c": e["c"]} if "c" in e else {}) for e in rec.events]})
                meta[tid] = (L, S, st, N, comp, empties)
                run.evaluations += 1
                # value level: same signal through compute_full (after the stream: history independence aside,
                # the computer is idle again)
                vals = np.concatenate([v for v in rec.values if v is not None]) if rec.values else None
                full = c.compute_full(x)
                rec.tap.take()
                if vals.shape != full.shape or not np.allclose(vals, full, rtol=1e-9, atol=1e-12):
                    run.violation({"kind": "stft_stream_values_differ_from_full", "L": L, "S": S, "style": st, "N": N,
                                   "chunks": comp, "empties": list(empties),
                                   "stream_shape": list(vals.shape), "full_shape": list(full.shape)})
                if rec.input_modified:
                    run.violation({"kind": "input_modified", "L": L, "S": S, "style": st, "N": N})
            # frame_by_frame_calculation for every chunk_size
            if N <= (8 if tier == "quick" else 14):
                rec = T.Recorder(c)
                for cs in range(1, N + 2):
                    full = c.compute_full(common.relayout(T.signal(rec.utt + 1, 0, N), common.LAYOUTS[cs % len(common.LAYOUTS)]))  # the signal the recorder is about to use
                    rec.tap.take()
                    ev, vals = rec.run(("fbf", N, cs))
                    run.evaluations += 1
                    if vals is None or vals.shape != full.shape or not np.allclose(vals, full, rtol=1e-9, atol=1e-12):
                        run.violation({"kind": "fbf_values_differ_from_full", "L": L, "S": S, "style": st, "N": N, "chunk_size": cs})
                tid += 1
                traces.append({"tid": tid, "cfg": {"L": L, "S": S, "st": stubs.spec_style(st)},
                               "events": [{k: e[k] for k in ("a", "err", "fr", "st", "n", "cs")} for e in rec.events]})
                meta[tid] = (L, S, st, N, "fbf all chunk sizes", ())
    return traces, meta


def real_size_values(run, tier, rng):
    """Real banks at real sizes: chunked vs compute_full values."""
    from pydrobert.speech import compute, filters
    nprng = np.random.RandomState(rng.randint(0, 2 ** 31 - 1))
    cases = []
    for rate, Lms, Sms in ((8000, 25, 10), (16000, 25, 10), (8000, 20, 7.5)):
        for style, kaldi in (("causal", False), ("centered", False), ("centered", True)):
            cases.append((rate, Lms, Sms, style, kaldi))
    if tier == "quick":
        cases = cases[:6]
    for (rate, Lms, Sms, style, kaldi) in cases:
        bank = filters.TriangularOverlappingFilterBank("mel", num_filts=5, sampling_rate=rate)
        c = compute.STFTFrameComputer(bank, frame_length_ms=Lms, frame_shift_ms=Sms, frame_style=style,
                                      kaldi_shift=kaldi, window_function="hamming", include_energy=True)
        L, S = c.frame_length, c.frame_shift
        Ns = sorted(set([0, 1, S // 2, S // 2 + 1, L // 2, L // 2 + 1, L - 1, L, L + 1, L + S - 1, L + S, L + S + 1,
                         L + 2 * S + 3, 3 * L + 7, L + 3 * S + S // 4] + [nprng.randint(1, 4 * L) for _ in range(3 if tier == "quick" else 12)]))
        for N in Ns:
            x = common.relayout(nprng.randn(N), common.LAYOUTS[N % len(common.LAYOUTS)])
            full = c.compute_full(x)
            for trial in range(2 if tier == "quick" else 5):
                p, outs, chunks = 0, [], []
                while p < N:
                    k = nprng.choice([1, 2, S - 1, S, S + 1, L - 1, L, L + 1, nprng.randint(1, N + 1)])
                    k = int(max(0, min(k, N - p)))
                    if nprng.rand() < 0.1:
                        outs.append(c.compute_chunk(x[p:p]))
                        chunks.append(0)
                    outs.append(c.compute_chunk(x[p:p + k]))
                    chunks.append(k)
                    p += k
                outs.append(c.finalize())
                got = np.concatenate(outs)
                run.evaluations += 1
                if got.shape != full.shape or not np.allclose(got, full, rtol=1e-8, atol=1e-10):
                    run.violation({"kind": "stft_real_size_stream_differs", "rate": rate, "L": L, "S": S, "style": style,
                                   "kaldi": kaldi, "N": N, "chunks": chunks,
                                   "stream_shape": list(got.shape), "full_shape": list(full.shape)})
        # frame_by_frame_calculation with its DEFAULT chunk size (1024), on signals a few chunks long, STFT and SI
        sbank = filters.GaborFilterBank("mel", num_filts=3, sampling_rate=rate)
        sstyle = "centered" if style == "centered" else "causal"
        sms = float(Sms)
        while True:  # C01's precondition for SI: the shift is shorter than the longest filter's one-sided support
            Ssi = int(0.001 * sms * rate)
            M_ = max(r - l for l, r in sbank.supports)
            if (sstyle == "causal" and Ssi < max(r for l, r in sbank.supports)) or (sstyle == "centered" and Ssi < M_ - M_ // 2):
                break
            sms /= 2
        for comp_ in (c, compute.SIFrameComputer(sbank, frame_shift_ms=sms, frame_style=sstyle)):
            for N in (1023, 1024, 1025, 2048 + L // 2, 4096 + 7, 4096 + S + 3, 5000):
                x = common.relayout(nprng.randn(N), common.LAYOUTS[N % len(common.LAYOUTS)])
                full = comp_.compute_full(x)
                got = compute.frame_by_frame_calculation(comp_, x)
                run.evaluations += 1
                if got.shape != full.shape or not np.allclose(got, full, rtol=1e-8, atol=1e-10):
                    run.violation({"kind": "fbf_default_chunk_size_differs_from_full", "computer": type(comp_).__name__, "rate": rate, "L": L, "S": S,
                                   "style": style, "kaldi": kaldi, "N": N, "fbf_shape": list(got.shape), "full_shape": list(full.shape)})
            # "any float signal": half / single precision and byte-swapped samples, in chunks from one sample to several
            # DFT blocks (whether a result is produced at all must not depend on the chunking)
            # (on a computer of its own, whose very first chunk is half precision)
            comp_ = (compute.SIFrameComputer(sbank, frame_shift_ms=sms, frame_style=sstyle) if type(comp_) is compute.SIFrameComputer else
                     compute.STFTFrameComputer(bank, frame_length_ms=Lms, frame_shift_ms=Sms, frame_style=style, kaldi_shift=kaldi,
                                               window_function="hamming", include_energy=True))
            for dt in ("<f2", "<f4", ">f4", ">f8"):
                N = 4096 + 7 + (S if dt[1] == "f" and dt[2] == "4" else 0)
                x = (nprng.randn(N) * 4).astype(dt)
                # (double precision last, on the computer that has just streamed the narrower types: still double-precision round-off)
                tol = {"2": 2e-2, "4": 1e-4, "8": 1e-10}[dt[2]]
                results = {}
                for label, size in (("chunks_of_700", 700), ("full", None), ("chunks_of_1", 1), ("chunks_of_3000", 3000), ("one_chunk", N)):
                    try:
                        if size is None:
                            results[label] = comp_.compute_full(x)
                        else:
                            outs = [comp_.compute_chunk(x[p:p + size]) for p in range(0, N, size)] + [comp_.finalize()]
                            results[label] = np.concatenate(outs)
                    except Exception as e:
                        run.violation({"kind": "stream_or_full_raised_for_a_float_signal", "computer": type(comp_).__name__, "dtype": dt,
                                       "how": label, "N": N, "error": repr(e), "style": style})
                        comp_ = type(comp_) is compute.SIFrameComputer and compute.SIFrameComputer(sbank, frame_shift_ms=sms, frame_style=sstyle) or comp_
                        try:
                            if comp_.started:
                                comp_.finalize()
                        except Exception:
                            pass
                run.evaluations += 1
                full = results.get("full")
                for label, got in results.items():
                    if full is None or label == "full":
                        continue
                    if got.shape != full.shape or not np.allclose(got.astype(np.float64), full.astype(np.float64), rtol=tol, atol=tol):
                        run.violation({"kind": "stream_differs_from_full_for_a_float_signal", "computer": type(comp_).__name__, "dtype": dt,
                                       "how": label, "N": N, "stream_shape": list(got.shape), "full_shape": list(full.shape), "style": style})
        run.sample({"real_size_config": [rate, Lms, Sms, style, kaldi], "Ns": Ns[:8]})


def stft_model_check(run, tier):
    """StftStream vs FrameDef: the exhaustive run, a small run whose dumped state
    graph gives per-action transition counts, and a canary (the pre-repair
    variant of the model must violate a C01 invariant, so the invariants are
    not vacuous)."""
    r = common.tlc("MC_StftStream", "StftStream_%s.cfg" % tier, timeout=3000)
    if r.violated:
        run.violation({"kind": "model_" + r.violated, "module": "StftStream", "detail": r.errtext[-3000:]})
    run.add_tlc("StftStream", r)
    r = common.tlc("MC_StftStream", "StftStream_cov.cfg", dump_actions=True, workers=8, timeout=600)
    run.add_tlc("StftStream(actions)", r, need_actions=("NChunk", "NFinalize", "NFull", "NFbF"))
    r = common.tlc("MC_StftStream", "StftStream_canary.cfg", workers=8, timeout=600)
    if not (r.violated or "").startswith("C01"):
        raise common.MachineryError("canary: the pre-repair StftStream variant was not refuted (got %r)" % r.violated)
    run.extra.setdefault("canaries", []).append({"module": "StftStream", "variant": "MinLenRule=FALSE", "refuted_by": r.violated})


def count_level(run, tier):
    """StftCount: TLC for a small configuration, Apalache inductive invariant for unbounded N and chunk
    sizes at real sizes.  A stalled or missing Apalache is 'not attempted', never a failure."""
    r = common.tlc("StftCount", "StftCount_tlc.cfg", workers=4, timeout=600, extra=())
    if r.violated:
        run.violation({"kind": "model_" + r.violated, "module": "StftCount", "detail": r.errtext[-2000:]})
    mods = ["MC_StftCount_400_160_1", "MC_StftCount_6_1_2"] if tier == "quick" else \
        ["MC_StftCount_400_160_0", "MC_StftCount_400_160_1", "MC_StftCount_400_160_2", "MC_StftCount_5_2_1", "MC_StftCount_6_1_2", "MC_StftCount_201_67_1"]
    from concurrent.futures import ThreadPoolExecutor
    jobs = [(m, "Init", 0) for m in mods] + [(m, "IndInit", 1) for m in mods]
    with ThreadPoolExecutor(max_workers=6) as ex:
        res = list(ex.map(lambda j: common.apalache(j[0], j[1], "IndInv", j[2]), jobs))
    out = []
    for (m, init, ln), verdict in zip(jobs, res):
        out.append({"module": m, "obligation": "%s => IndInv" % init if ln == 0 else "IndInv /\\ Next => IndInv'", "verdict": verdict})
        if verdict == "violated":
            run.violation({"kind": "apalache_inductive_invariant_violated", "module": m, "init": init, "length": ln})
    run.extra["apalache"] = out
    run.extra["apalache_discharged"] = sum(1 for o in out if o["verdict"] == "ok")
    if any(o["verdict"].startswith("not_attempted") for o in out):
        run.not_decided.append("Apalache obligations not attempted: " + "; ".join("%s %s" % (o["module"], o["verdict"][:60]) for o in out if o["verdict"] != "ok"))


def real_size_count_traces(run, tier, rng):
    """Real sizes, count level: recorded executions validated by TraceStftCount."""
    from pydrobert.speech import compute, filters
    nprng = np.random.RandomState(rng.randint(0, 2 ** 31 - 1))
    traces, tid = [], 0
    for (rate, Lms, Sms) in ((16000, 25, 10), (8000, 25, 10), (8000, 20.125, 8.375)):
        for st, (style, kaldi) in enumerate((("causal", False), ("centered", False), ("centered", True))):
            bank = filters.TriangularOverlappingFilterBank("mel", num_filts=3, sampling_rate=rate)
            c = compute.STFTFrameComputer(bank, frame_length_ms=Lms, frame_shift_ms=Sms, frame_style=style, kaldi_shift=kaldi)
            L, S = c.frame_length, c.frame_shift
            for _ in range(12 if tier == "quick" else 120):
                N = int(nprng.choice([0, 1, S // 2, L // 2, L // 2 + 1, L - 1, L, L + S // 2, nprng.randint(1, 6 * L), 16000]))
                x = nprng.randn(N)
                events, p = [], 0
                while p < N or nprng.rand() < 0.2:
                    k = int(min(N - p, nprng.choice([0, 1, S - 1, S, S + 1, L, L + 1, 1024, nprng.randint(0, 2 * L)])))
                    out = c.compute_chunk(x[p:p + k])
                    p += k
                    events.append({"a": "chunk", "c": k, "nret": int(out.shape[0]), "st": bool(c.started),
                                   "p": common.stft_priv(c)})
                    if len(events) > 60:
                        break
                if p < N:
                    out = c.compute_chunk(x[p:])
                    events.append({"a": "chunk", "c": N - p, "nret": int(out.shape[0]), "st": bool(c.started),
                                   "p": common.stft_priv(c)})
                out = c.finalize()
                events.append({"a": "finalize", "c": 0, "nret": int(out.shape[0]), "st": bool(c.started),
                               "p": common.stft_priv(c)})
                tid += 1
                traces.append({"tid": tid, "cfg": {"L": L, "S": S, "st": stubs.spec_style(st)}, "N": N, "events": events})
                run.evaluations += 1
    d_rej, r = common.validate_traces_parallel("TraceStftCount", "TraceStftCount.cfg", traces, shards=4)
    run.traces += len(traces)
    run.states += r.distinct
    run.transitions += r.generated
    byid = {t["tid"]: t for t in traces}
    for (tid_, line, clause) in d_rej:
        t = byid[tid_]
        run.violation({"kind": "stft_real_size_count_" + clause, "cfg": t["cfg"], "N": t["N"], "event": line, "trace": t})
    run.extra["real_size_count_traces"] = len(traces)
    run.sample({"real_size_count_trace": {k: traces[3][k] for k in ("cfg", "N")}, "events": traces[3]["events"][:4]})


def run(tier, seed):
    run = common.Run("C01", tier, seed)
    rng = random.Random(seed)
    # 1. the design: TLC on the implementation-shaped models vs the definitions
    stft_model_check(run, tier)
    si_model.model_check(run, tier)
    # 2. the code: recorded traces validated against the definition-level trace spec
    traces, meta = record_stft(run, tier, rng)
    rejected, tr = common.validate_traces_parallel("TraceStftDef", "TraceStftDef.cfg", traces, shards=12)
    run.traces += len(traces)
    run.states += tr.distinct
    run.transitions += tr.generated
    for (tid, line, clause) in rejected:
        L, S, st, N, comp, empties = meta[tid]
        run.violation({"kind": "stft_trace_rejected_" + clause, "L": L, "S": S, "style": st, "N": N, "chunks": comp,
                       "empties": list(empties), "event": line, "clause": clause,
                       "trace": next(t for t in traces if t["tid"] == tid)})
    for t in traces[:2] + traces[len(traces) // 2: len(traces) // 2 + 1]:
        run.sample(t)
    if not rejected:
        victim = next(t for t in traces if any(e["fr"] for e in t["events"]))

        def corrupt(t):
            e = next(e for e in t["events"] if e["fr"])
            e["fr"][0][0] += 1
        common.assert_binding_live(run, "TraceStftDef", "TraceStftDef.cfg", victim, corrupt, "one sample index of one frame changed")
    # 3. real sizes, value level and count level (TraceStftCount), unbounded N (Apalache)
    real_size_values(run, tier, rng)
    real_size_count_traces(run, tier, rng)
    count_level(run, tier)
    repo_tests.validate(run, "C01")
    # 4. short integration
    si_model.record_and_validate(run, tier, rng, prop="C01")
    run.extra["stft_traces"] = len(traces)
    run.extra["rule"] = ("every composition of N <= %d for every (L,S,style), sampled chunkings beyond, "
                         "random interleaved empty chunks; frame_by_frame_calculation for every chunk_size" % (6 if tier == "quick" else 9))
    run.assumptions += ["numpy.pad(...,'symmetric') is the 2n-periodic even extension",
                        "features are a function of the frame handed to _compute_frame (token level) - checked at value level too"]
    return run.finish()


def replay(path):
    import json
    v = json.load(open(path))
    print(json.dumps(v, indent=1)[:4000])
    if "trace" in v:
        rej, _ = common.validate_traces("TraceStftDef", "TraceStftDef.cfg", [v["trace"]])
        print("re-validation:", "REJECTED %s" % (rej,) if rej else "accepted")
        return 1 if rej else 0
    return 0
