"""C15  Deltas and Stack produce the documented layout and values.

S  TLC (constant evaluation of PostLayout.tla): the layout maps are defined
   declaratively (Stack: runs of num_vectors frames side by side; Deltas: k-fold
   Kaldi regression with padded edges, concatenated or stacked on a new axis);
   TLC checks the k-fold filter equals k applications of the first-order
   recursion on an edge-extended sequence, that the 2-D reshape rule is the N-D
   rule, and the shape rule.
B  spec -> code: for every case (shape incl. empty / singleton axes, axis,
   target_axis, time_axis - negative too -, num_deltas, context window, pad
   mode, num_vectors) TLC exports the output shape and, per output cell, the
   formal combination of input cells; the real Deltas.apply / Stack.apply is run
   on arange-filled and random integer tensors (int16, float32, float64) and
   every cell, the shape, the dtype and the input's bytes are compared.
"""
import itertools
import json
import os
import random
import shutil
import tempfile
from fractions import Fraction

import numpy as np

import common
from pydrobert.speech import post

MODES = ["edge", "constant", "reflect", "symmetric", "wrap", "linear_ramp", "mean"]


def shapes(tier):
    ext = (0, 1, 2, 3)
    out = []
    for nd in (1, 2, 3):
        for sh in itertools.product(ext, repeat=nd):
            out.append(list(sh))
    out += [[5, 2], [2, 5], [4, 1, 2], [5, 3, 1], [1, 5], [7, 2]]
    return out


def gen_cases(tier, rng):
    cases = []
    for sh in shapes(tier):
        nd = len(sh)
        # Stack
        if nd >= 2:
            for axis in range(-nd, nd):
                for t in range(-nd, nd):
                    if axis % nd == t % nd:
                        continue
                    for V in (1, 2, 3, 4):
                        for pad in ("none", "edge", "constant", "reflect", "symmetric", "wrap"):
                            if pad not in ("none", "constant") and sh[t % nd] == 0:
                                continue  # numpy cannot extend an empty axis from its own samples
                            for cval in ((0, 7) if pad == "constant" else (0,)):
                                cases.append({"op": "stack", "shape": sh, "axis": axis, "time_axis": t, "V": V, "pad": pad, "cval": cval})
        # Deltas
        for axis in range(-nd, nd):
            if sh[axis % nd] == 0:
                continue  # numpy cannot pad an empty axis: outside the property's range (empty NON-filtered axes)
            for cat in (True, False):
                tn = nd if cat else nd + 1
                for tgt in range(-tn, tn):
                    for K in (0, 1, 2):
                        for W in (1, 2):
                            for mode in MODES:
                                for cval in ((0, -4) if mode in ("constant", "linear_ramp") else (0,)):
                                    cases.append({"op": "deltas", "shape": sh, "axis": axis, "target_axis": tgt, "K": K,
                                                  "cat": cat, "W": W, "mode": mode, "cval": cval})
                                if mode == "constant":  # the same extension through a callable padding mode
                                    cases.append({"op": "deltas", "shape": sh, "axis": axis, "target_axis": tgt, "K": K,
                                                  "cat": cat, "W": W, "mode": mode, "cval": 5, "callable": True})
    rng.shuffle(cases)
    n = 2500 if tier == "quick" else 30000
    return cases[:n]


def export(cases):
    d = tempfile.mkdtemp(prefix="verif_pl_")
    try:
        inp, out = os.path.join(d, "c.json"), os.path.join(d, "t.json")
        json.dump(cases, open(inp, "w"))
        r = common.tlc("PostLayoutCases", "PostLayoutCases.cfg", workdir=d, workers=1,
                       env={"IN_FILE": inp, "OUT_FILE": out}, timeout=3000, jvm=("-Xmx8g",))
        if r.violated:
            return None, r
        return json.load(open(out)), r
    finally:
        shutil.rmtree(d, ignore_errors=True)


def export_parallel(cases, shards=12):
    from concurrent.futures import ThreadPoolExecutor
    parts = [cases[i::shards] for i in range(shards)]
    with ThreadPoolExecutor(max_workers=shards) as ex:
        res = list(ex.map(export, parts))
    rows = [None] * len(cases)
    for s, (tab, r) in enumerate(res):
        if tab is None:
            return None, r
        for j, row in enumerate(tab):
            rows[s + j * shards] = row
    return rows, res[0][1]


def expected_cell(cell, xflat, cval=0):
    """exact rational value of a delta cell (source -1 is the padding constant / ramp end value)"""
    tot = 0
    for src, num in cell["terms"]:
        tot += num * (int(xflat[src]) if src >= 0 else cval)
    return Fraction(tot, cell["den"])


def pad_with(vector, pad_width, iaxis, kwargs):
    """numpy's own example of a callable padding mode (numpy.pad documentation): a constant `padder` on both sides"""
    pad_value = kwargs.get("padder", 10)
    vector[:pad_width[0]] = pad_value
    vector[-pad_width[1]:] = pad_value


def peraxis(c):
    """Stack cases whose padding constant / ramp end value is given PER AXIS, numpy.pad's ((before, after), ...) form: the
    pair that counts is the time axis' (only its `after` is ever used), the others carry other numbers."""
    return c["op"] == "stack" and c.get("cval", 0) != 0 and not c.get("callable") and len(c["shape"]) >= 2 and (c["V"] + len(c["shape"])) % 2 == 0


def pad_kwargs(c):
    """keyword arguments handed through to numpy.pad"""
    mode = c["pad"] if c["op"] == "stack" else c["mode"]
    if c.get("callable"):
        return {"padder": c["cval"]}
    if c.get("cval", 0) == 0:
        return {}
    val = c["cval"]
    if peraxis(c):
        nd = len(c["shape"])
        ta = c["time_axis"] % nd
        val = tuple((c["cval"] + 3, c["cval"]) if a == ta else (c["cval"] + 5 + a, c["cval"] + 7 + a) for a in range(nd))
    return {"constant_values": val} if mode == "constant" else {"end_values": val}


def build(c):
    # (half of the objects are built with POSITIONAL arguments in the documented order)
    positional = (c.get("V", c.get("K", 0)) + len(c["shape"])) % 2 == 1
    if c["op"] == "stack":
        if positional:
            return post.Stack(c["V"], c["time_axis"], None if c["pad"] == "none" else c["pad"], **pad_kwargs(c))
        return post.Stack(c["V"], time_axis=c["time_axis"], pad_mode=None if c["pad"] == "none" else c["pad"], **pad_kwargs(c))
    if positional:
        return post.Deltas(c["K"], c["target_axis"], c["cat"], c["W"], pad_with if c.get("callable") else c["mode"], **pad_kwargs(c))
    return post.Deltas(c["K"], target_axis=c["target_axis"], concatenate=c["cat"], context_window=c["W"],
                       pad_mode=pad_with if c.get("callable") else c["mode"], **pad_kwargs(c))


def check_case(run, c, row, nprng, k):
    sh = tuple(c["shape"])
    size = int(np.prod(sh))
    for dt in (np.float64, np.int16, np.float32, np.int64):
        for fill in ("arange", "random") if dt != np.int64 else ("huge",):
            if fill == "arange":
                x = (np.arange(size) + 1).reshape(sh).astype(dt)
            elif fill == "huge":
                # 64-bit integers no double can hold: the copies of the input (the order-0 block, every Stack cell)
                # must still be the input's samples exactly; the regression values themselves are not compared here
                x = (np.arange(size, dtype=np.int64) * 3 + (1 << 60) + 1).reshape(sh)
            else:
                x = nprng.randint(-9, 10, size=sh).astype(dt)
            xflat = x.reshape(-1)
            in_place = bool((k + (fill == "random")) & 1)
            layout = common.LAYOUTS[(k // 2 + (fill == "random") + np.dtype(dt).itemsize) % len(common.LAYOUTS)]
            arg = common.relayout(x, layout)
            if not in_place:
                arg.flags.writeable = False
            try:
                p = build(c)
                got = p.apply(arg, axis=c["axis"], in_place=in_place)
            except Exception as e:
                run.violation({"kind": c["op"] + "_raised", "case": c, "dtype": str(np.dtype(dt)), "in_place": in_place, "layout": layout, "error": repr(e)})
                return
            run.evaluations += 1
            want_shape = tuple(row["shape"])
            if tuple(got.shape) != want_shape:
                run.violation({"kind": c["op"] + "_shape", "case": c, "got": list(got.shape), "definition": list(want_shape), "dtype": str(np.dtype(dt))})
                return
            if got.dtype.newbyteorder("=") != arg.dtype.newbyteorder("="):  # (the byte order is storage, not type)
                run.violation({"kind": c["op"] + "_dtype", "case": c, "got": str(got.dtype), "input": str(arg.dtype), "layout": layout})
                return
            g = np.ascontiguousarray(got).astype(dt).reshape(-1)
            if c["op"] == "stack":
                m = np.array(row["map"], dtype=np.int64).reshape(-1)
                want = np.where(m >= 0, xflat[np.maximum(m, 0)] if size else np.zeros(len(m), dtype=dt), c.get("cval", 0)).astype(dt) if len(m) else np.zeros(0, dtype=dt)
                if not np.array_equal(g, want):
                    i = int(np.argwhere(g != want)[0][0])
                    run.violation({"kind": "stack_cell_from_wrong_source", "case": c, "dtype": str(np.dtype(dt)), "in_place": in_place, "layout": layout,
                                   "cell": i, "got": float(g[i]), "definition_source": int(m[i]), "definition": float(want[i])})
                    return
            else:
                for i, cell in enumerate(row["map"]):
                    if fill == "huge":
                        if len(cell["terms"]) == 1 and cell["terms"][0][0] >= 0 and cell["terms"][0][1] == cell["den"] and int(g[i]) != int(xflat[cell["terms"][0][0]]):
                            run.violation({"kind": "deltas_input_block_not_the_input", "case": c, "dtype": "int64", "cell": i, "layout": layout,
                                           "got": int(g[i]), "input_sample": int(xflat[cell["terms"][0][0]])})
                            return
                        continue
                    ex = expected_cell(cell, xflat, c.get("cval", 0))
                    if np.issubdtype(dt, np.integer):
                        lo = int(ex) if ex >= 0 else -int(-ex)  # truncation toward zero, as astype does
                        ok = {lo}
                        if abs(ex - round(ex)) < Fraction(1, 10 ** 9):
                            ok |= {int(round(ex)), int(round(ex)) - (1 if ex > 0 else -1)}
                        good = int(g[i]) in ok
                    else:
                        tol = 1e-9 if dt == np.float64 else 1e-5
                        good = abs(float(g[i]) - float(ex)) <= tol * max(1.0, abs(float(ex)))
                    if not good:
                        run.violation({"kind": "deltas_cell_value", "case": c, "dtype": str(np.dtype(dt)), "in_place": in_place, "layout": layout, "cell": i,
                                       "got": float(g[i]), "definition": float(ex), "terms": cell["terms"], "den": cell["den"]})
                        return
            if not in_place and not np.array_equal(arg, x):
                run.violation({"kind": c["op"] + "_modified_input", "case": c, "dtype": str(np.dtype(dt))})
                return


def instance_reuse(run, cases, rows, nprng):
    """A post-processor object is configuration, not state: one Stack / Deltas instance applied to a sequence of
    tensors (different shapes, different numbers of dimensions) must give each the result a fresh instance gives."""
    groups = {}
    for c, row in zip(cases, rows):
        if c["op"] == "stack":
            key = ("stack", c["V"], c["time_axis"], c["pad"], c.get("cval", 0), len(c["shape"]) if peraxis(c) else 0)
        else:
            key = ("deltas", c["K"], c["target_axis"], c["cat"], c["W"], c["mode"], c.get("cval", 0), bool(c.get("callable")))
        groups.setdefault(key, []).append((c, row))
    n = 0
    for key, items in groups.items():
        if len(items) < 2:
            continue
        items = items[:6]
        inst = build(items[0][0])
        for (c, row) in items:
            sh = tuple(c["shape"])
            x = (np.arange(int(np.prod(sh))) + 1).reshape(sh).astype(np.float64)
            try:
                got = inst.apply(x, axis=c["axis"])
                fresh = build(c).apply(x, axis=c["axis"])
            except Exception as e:
                run.violation({"kind": key[0] + "_reused_instance_raised", "config": list(key), "case": c, "error": repr(e),
                               "sequence": [it[0]["shape"] for it in items]})
                break
            n += 1
            run.evaluations += 1
            if tuple(got.shape) != tuple(row["shape"]) or got.shape != fresh.shape or not np.array_equal(got, fresh):
                run.violation({"kind": key[0] + "_reused_instance_differs_from_fresh", "config": list(key), "case": c,
                               "sequence": [it[0]["shape"] for it in items], "got_shape": list(got.shape), "definition_shape": row["shape"]})
                break
    run.extra["instance_reuse_applications"] = n


def current_attributes(run, cases, rows):
    """`Deltas.concatenate` is a documented public attribute: the layout of the result follows its current value."""
    n = 0
    for c, row in zip(cases, rows):
        if c["op"] != "deltas" or n >= 60:
            continue
        other = dict(c)
        other["cat"] = not c["cat"]
        sh = tuple(c["shape"])
        x = (np.arange(int(np.prod(sh))) + 1).reshape(sh).astype(np.float64)
        try:
            inst = build(other)
            if int(np.prod(sh)) and n % 2:
                try:
                    inst.apply(x, axis=c["axis"])  # (target_axis may only be valid for the other layout)
                except Exception:
                    pass
            inst.concatenate = c["cat"]
            got = inst.apply(x, axis=c["axis"])
            fresh = build(c).apply(x, axis=c["axis"])
        except Exception as e:
            run.violation({"kind": "deltas_with_reassigned_concatenate_raised", "case": c, "error": repr(e)})
            continue
        n += 1
        run.evaluations += 1
        if tuple(got.shape) != tuple(row["shape"]) or got.shape != fresh.shape or not np.array_equal(got, fresh):
            run.violation({"kind": "deltas_ignores_current_concatenate_attribute", "case": c, "got_shape": list(got.shape),
                           "definition_shape": row["shape"]})
    run.extra["reassigned_concatenate_applications"] = n


def run(tier, seed):
    run = common.Run("C15", tier, seed)
    rng = random.Random(seed)
    nprng = np.random.RandomState(seed)
    cases = gen_cases(tier, rng)
    rows, r = export_parallel(cases)
    if rows is None:
        run.violation({"kind": "model_" + str(r.violated), "module": "PostLayout", "detail": r.errtext[-2000:]})
        return run.finish()
    ncells = sum(len(row["map"]) for row in rows)
    run.states += len(rows)
    run.transitions += ncells
    run.tlc_runs.append({"module": "PostLayoutCases", "cases_evaluated": len(rows), "output_cells": ncells})
    for k, (c, row) in enumerate(zip(cases, rows)):
        check_case(run, c, row, nprng, k)
    instance_reuse(run, cases, rows, nprng)
    current_attributes(run, cases, rows)
    run.traces += len(cases)
    run.sample({"case": cases[0], "spec_row": {"shape": rows[0]["shape"], "map_head": rows[0]["map"][:4]}})
    run.sample({"case": cases[1]})
    run.extra["rule"] = "cases drawn (seeded) from: shapes with 1-3 dims and extents 0..3 (+ a few longer), every axis/target_axis/time_axis incl. negative, num_deltas 0..2, context 1..2, 7 pad modes (incl. the width-dependent linear_ramp and mean), num_vectors 1..4, 6 stack pad modes, padding constants / ramp end values"
    run.extra["cases"] = len(cases)
    return run.finish()


def replay(path):
    print(json.dumps(json.load(open(path)), indent=1)[:3000])
    return 0
