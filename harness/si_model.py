"""Short-integration computer: TLC model check of SiStream, export of the
definition table (spec -> code), recording of real executions, value-level
comparison against the definition evaluated by the valuation layer, and
implementation-level trace validation (TraceSi)."""
import json
import os
import tempfile

import numpy as np

import common
import gen_mc
import stubs
import stft_trace as T
from pydrobert.speech import compute, config as pconfig


def model_check(run, tier):
    r = common.tlc("MC_SiStream", "SiStream_%s.cfg" % tier, timeout=3000)
    if r.violated:
        run.violation({"kind": "model_" + r.violated, "module": "SiStream", "detail": r.errtext[-3000:]})
    run.add_tlc("SiStream", r)
    r = common.tlc("MC_SiStream", "SiStream_cov.cfg", dump_actions=True, workers=8, timeout=900)
    run.add_tlc("SiStream(actions)", r, need_actions=("NChunk", "NFinalize", "NFull"))
    r = common.tlc("MC_SiStream", "SiStream_canary.cfg", workers=8, timeout=900)
    if not r.violated:
        raise common.MachineryError("canary: SiStream with one output too many per block was not refuted")
    run.extra.setdefault("canaries", []).append({"module": "SiStream", "variant": "KeepRule=canary", "refuted_by": r.violated})


def export_def_table(tier):
    d = tempfile.mkdtemp(prefix="verif_sidef_")
    out = os.path.join(d, "table.json")
    try:
        r = common.tlc("SiDefTable", "SiDefTable_%s.cfg" % tier, workdir=d, workers=1, env={"OUT_FILE": out}, timeout=600)
        table = json.load(open(out))
    finally:
        import shutil
        shutil.rmtree(d, ignore_errors=True)
    idx = {}
    for row in table:
        c = row["cfg"]
        idx[(c["style"], c["S"], c["M"], c["T"], c["D"], row["N"])] = row
    return idx


def make_si(c, taps, window=None, **kw):
    """Real SIFrameComputer in the tiny instance c (a gen_mc.si_configs entry)."""
    bank = stubs.StubBank(taps, [c["left"]] * len(taps), real=not any(np.iscomplexobj(np.asarray(t)) for t in taps))
    L = c["M"] + c["S"] - 1
    D0 = max(L, 2)
    comp = compute.SIFrameComputer(bank, frame_shift_ms=c["S"], frame_style=c["style"],
                                   pad_to_nearest_power_of_two=(c["D"] != D0),
                                   window_function=window or stubs.Ramp(), **kw)
    got = (comp._frame_shift, comp._max_support, comp._translation, comp._dft_size)
    if got != (c["S"], c["M"], c["T"], c["D"]):
        raise common.MachineryError("tiny-instance assumption broken for SI: asked %s got %s" % (c, got))
    return comp


def rolled_filters(c, taps):
    """g_i: taps 0..M-1 of the filter as the definition uses it.  For a stub bank
    with explicit taps h[left..left+len) this is independent of the code:
    causal: g[m] = h[m - T]; centered: g[m] = h[m - (T - mid + 1)] with mid the
    support's centre."""
    M, Tt, left, length = c["M"], c["T"], c["left"], c["length"]
    out = []
    for t in taps:
        g = np.zeros(M, dtype=np.asarray(t).dtype)
        shift = Tt if c["style"] == "causal" else Tt - ((left + left + length) // 2) + 1
        for j, v in enumerate(t):
            m = left + j + shift
            if 0 <= m < M:
                g[m] += v
        out.append(g)
    return out


def valuation(x, gs, window2, frames, power, log, energy_T=None):
    """Definition evaluated directly: y_i[n] = sum_m g_i[m] x[n-m]; coefficient i
    of frame k = sum over (n, t) in the frame of w[t] |y_i[n]|^p."""
    N = len(x)
    x = np.asarray(x, dtype=np.float64)
    filt = list(gs)
    if energy_T is not None:
        e = np.zeros(energy_T + 1)
        e[energy_T] = 1.0
        filt = [e] + filt
    out = np.zeros((len(frames), len(filt)))
    for i, g in enumerate(filt):
        for k, fr in enumerate(frames):
            acc = 0.0
            for (n, t) in fr:
                y = 0.0
                for m in range(len(g)):
                    if 0 <= n - m < N:
                        y += g[m] * x[n - m]
                a = abs(y)
                acc += window2[t] * (a * a if power else a)
            out[k, i] = acc
    fl = pconfig.LOG_FLOOR_VALUE
    if log:
        return np.log(np.maximum(out, fl)), np.abs(out - fl) <= 1e-6 * fl
    return out, np.zeros(out.shape, dtype=bool)


def near_floor(exp):
    return np.abs(exp - np.log(pconfig.LOG_FLOOR_VALUE)) < 1e-6


def _dt(arr_dtype):
    return {np.dtype(np.float64): "f8", np.dtype(np.float32): "f4", np.dtype(np.float16): "f2", np.dtype(np.int64): "i8"}[np.dtype(arr_dtype).newbyteorder("=")]


class SiRecorder:
    def __init__(self, comp):
        self.c = comp
        self.events = []
        self.values = []

    def _p(self):
        return common.si_priv(self.c)

    def call(self, kind, x=None):
        c = self.c
        ev = {"a": kind, "err": False}
        vals = None
        try:
            if kind == "chunk":
                ev["c"], ev["d"] = int(len(x)), _dt(x.dtype)
                vals = c.compute_chunk(x)
            elif kind == "finalize":
                vals = c.finalize()
            else:
                ev["n"], ev["d"] = int(len(x)), _dt(x.dtype)
                vals = c.compute_full(x)
        except ValueError:
            ev["err"] = True
        ev["st"] = bool(c.started)
        ev["nret"] = -1 if vals is None else int(vals.shape[0])
        ev["p"] = self._p()
        self.events.append(ev)
        self.values.append(vals)
        return vals


def record_and_validate(run, tier, rng, prop):
    """prop == 'C01': every chunking; prop == 'C03': compute_full over the option
    matrix (power/magnitude, log, energy, dtypes, several filters)."""
    nprng = np.random.RandomState(rng.randint(0, 2 ** 31 - 1))
    table = export_def_table(tier)
    cfgs = gen_mc.si_configs(tier)
    maxn = 12 if tier == "quick" else 20
    ncomp = 6 if tier == "quick" else 9
    traces, meta, tid = [], {}, 0
    seen_cfg = set()
    for c in cfgs:
        key = (c["style"], c["S"], c["M"], c["T"], c["D"], c["left"], c["length"])
        if key in seen_cfg:
            continue
        seen_cfg.add(key)
        nfilt = 1 if prop == "C01" else 2
        options = [dict(use_power=True, use_log=False, include_energy=False)]
        if prop == "C03":
            options = [dict(use_power=p, use_log=lg, include_energy=en)
                       for p in (True, False) for lg in (True, False) for en in (False, True)]
        for opt in options:
            taps = [list(nprng.randint(-3, 4, size=c["length"]).astype(float) + 0.5) for _ in range(nfilt)]
            if prop == "C03" and (opt["use_log"] != opt["include_energy"]):
                # a complex bank in half of the option matrix: |.|^p is the modulus (squared), not the square
                taps = [[complex(v, w) for v, w in zip(t, nprng.randint(-3, 4, size=len(t)).astype(float) + 0.25)] for t in taps]
            if c["style"] == "centered":
                # the centered computer keeps M taps starting one sample after the
                # support's first; a stub filter must fit that window (generator constraint)
                for t in taps:
                    t[-1] = 0.0
            comp = make_si(c, taps, **opt)
            gs = rolled_filters(c, taps)
            w2 = stubs.Ramp().get_impulse_response(2 * c["S"])
            Ns = range(0, maxn + 1) if prop == "C01" else sorted(set([0, 1, c["S"], c["S"] + 1, c["M"], c["M"] + c["S"], c["D"], c["D"] + 1, 2 * c["D"] + 1, maxn]))
            for N in Ns:
                if N > maxn:
                    continue
                row = table[(c["style"], c["S"], c["M"], c["T"], c["D"], N)]
                x = nprng.randint(-4, 5, size=N).astype(np.float64) + 0.25
                if N and rng.random() < 0.1:
                    x = x * 0.0 if rng.random() < 0.5 else x * 1e-4  # digital silence / below the log floor
                exp, borderline = valuation(x, gs, w2, row["frames"], opt["use_power"], opt["use_log"],
                                            energy_T=c["T"] if opt["include_energy"] else None)
                if prop == "C01":
                    import c01
                    chunkings = c01.chunkings_for(N, c["M"] + c["S"] - 1, c["S"], rng, ncomp, 3 if tier == "quick" else 8)
                else:
                    chunkings = [None]
                for comp_ in chunkings:
                    rec = SiRecorder(comp)
                    dts = [np.float64] if prop == "C01" else [np.float64, np.float32]
                    for dt in dts:
                        xx = common.relayout(x.astype(dt), common.LAYOUTS[(N + len(chunkings) + np.dtype(dt).itemsize) % len(common.LAYOUTS)])
                        xx.flags.writeable = False
                        if comp_ is None:
                            vals = rec.call("full", xx)
                        else:
                            p, outs = 0, []
                            for k in comp_:
                                if rng.random() < 0.08:
                                    outs.append(rec.call("chunk", xx[p:p]))
                                outs.append(rec.call("chunk", xx[p:p + k]))
                                p += k
                            if N == 0 and rng.random() < 0.5:
                                outs.append(rec.call("chunk", xx[0:0]))
                            outs.append(rec.call("finalize"))
                            vals = np.concatenate(outs)
                        run.evaluations += 1
                        tol = 1e-9 if dt == np.float64 else 2e-4
                        bad = None
                        if vals.shape != exp.shape:
                            bad = "shape %s, definition %s" % (vals.shape, exp.shape)
                        elif vals.dtype != np.dtype(dt):
                            bad = "result dtype %s for input %s" % (vals.dtype, np.dtype(dt))
                        else:
                            ok = np.isclose(vals.astype(np.float64), exp, rtol=tol, atol=tol) | borderline
                            if dt != np.float64:
                                ok = ok | near_floor(exp)  # single precision: inputs were rounded, allow the floor to flip
                            if not ok.all():
                                k_, i_ = np.argwhere(~ok)[0]
                                bad = "frame %d coeff %d: got %r, definition %r" % (k_, i_, float(vals[k_, i_]), float(exp[k_, i_]))
                        if bad:
                            run.violation({"kind": "si_values_differ_from_definition", "cfg": c, "options": opt, "N": N,
                                           "chunks": comp_, "dtype": str(np.dtype(dt)), "what": bad,
                                           "taps": taps, "x": [float(v) for v in x]})
                    tid += 1
                    traces.append({"tid": tid, "cfg": {k: c[k] for k in ("style", "S", "M", "T", "D")}, "events": rec.events})
                    meta[tid] = (c, N, comp_)
    # implementation-level binding: do the private counters / per-call frame counts follow SiStream?
    rejected, tr = common.validate_traces_parallel("TraceSi", "TraceSi.cfg", traces, shards=12)
    if tr.violated:
        run.violation({"kind": "si_trace_invariant_" + str(tr.violated), "detail": tr.errtext[-2000:]})
    run.traces += len(traces)
    run.states += tr.distinct
    run.transitions += tr.generated
    div = []
    for (tid_, line, clause) in rejected:
        c, N, comp_ = meta[tid_]
        div.append({"cfg": c, "N": N, "chunks": comp_, "event": line})
    run.extra["si_traces"] = len(traces)
    run.extra["si_impl_divergences"] = len(div)
    run.extra["si_impl_divergence_examples"] = div[:3]
    if div:
        print("NOTE %s: %d recorded SI executions do not follow the implementation-shaped model SiStream "
              "(private counters / per-call frame counts); not a violation unless the values differ too" % (run.prop, len(div)))
    run.sample({"si_trace": traces[len(traces) // 3]})
    run.sample({"si_definition_row": table[next(iter(table))]})
