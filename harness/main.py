"""./check <ID> [--tier quick|thorough] [--replay path]"""
import argparse
import importlib
import os
import sys
import traceback

HERE = os.path.dirname(os.path.abspath(__file__))
sys.path.insert(0, HERE)
import common  # noqa: E402


def main():
    ap = argparse.ArgumentParser()
    ap.add_argument("prop")
    ap.add_argument("--tier", default=os.environ.get("VERIF_TIER", "quick"), choices=["quick", "thorough"])
    ap.add_argument("--replay", default=None)
    a = ap.parse_args()
    seed = int(os.environ.get("VERIF_SEED", "0"))
    prop = a.prop.upper()
    try:
        common.repo_on_path()
        mod = importlib.import_module(prop.lower())
        if a.replay:
            return mod.replay(a.replay)
        return mod.run(a.tier, seed)
    except common.MachineryError as e:
        print("MACHINERY-FAILURE %s: %s" % (prop, e))
        return 2
    except Exception:
        traceback.print_exc()
        print("MACHINERY-FAILURE %s: unexpected exception in the harness" % prop)
        return 2


if __name__ == "__main__":
    sys.exit(main())
