"""./check <ID> [--tier quick|thorough] [--replay path]"""
import argparse
import importlib
import os
import sys
import traceback

HERE = os.path.dirname(os.path.abspath(__file__))
sys.path.insert(0, HERE)
import common  # noqa: E402


def main():
    ap = argparse.ArgumentParser()
    ap.add_argument("prop")
    ap.add_argument("--tier", default=os.environ.get("VERIF_TIER", "quick"), choices=["quick", "thorough"])
    ap.add_argument("--replay", default=None)
    a = ap.parse_args()
    seed = int(os.environ.get("VERIF_SEED", "0"))
    prop = a.prop.upper()
    try:
        common.repo_on_path()
        mod = importlib.import_module(prop.lower())
        if a.replay:
            return mod.replay(a.replay)
        return mod.run(a.tier, seed)
    except common.MachineryError as e:
        print("MACHINERY-FAILURE %s: %s" % (prop, e))
        return 2
    except Exception as e:
        tb = traceback.extract_tb(e.__traceback__)
        src = os.path.realpath(common.REPO_SRC)
        inner = tb[-1].filename if tb else ""
        traceback.print_exc()
        if os.path.realpath(inner).startswith(src) and not isinstance(e, (KeyboardInterrupt, MemoryError)):
            # the code under test raised on an input inside the property's range (the same
            # harness input passes on the unchanged tree): that is a violation, not a harness failure
            import hashlib, json
            rec = {"property": prop, "kind": "code_under_test_raised", "exception": repr(e),
                   "where": "%s:%s in %s" % (tb[-1].filename, tb[-1].lineno, tb[-1].name),
                   "traceback": traceback.format_exception(type(e), e, e.__traceback__)[-12:]}
            d = os.path.join(common.REPLAYS, prop)
            os.makedirs(d, exist_ok=True)
            path = os.path.join(d, "code_under_test_raised_%s.json" % hashlib.sha1(repr(rec["where"]).encode()).hexdigest()[:12])
            json.dump(rec, open(path, "w"), indent=1)
            print("VIOLATION property=%s replay=%s" % (prop, path))
            print("  the code under test raised %r at %s" % (e, rec["where"]))
            return 1
        print("MACHINERY-FAILURE %s: unexpected exception in the harness" % prop)
        return 2


if __name__ == "__main__":
    sys.exit(main())
