"""C16  Standardize normalises with exactly the statistics it was given.

S  TLC: Standardize.tla - statistics are those of the bag of vectors accumulated
   (any split into vector / tensor calls), dimension mismatch is ValueError and
   changes nothing.
B  code -> spec: random call sequences on real instances (vectors, tensors in
   five layouts / axes, float32 / float64 / int32, read-only inputs), every
   event validated by TraceStandardize; apply() of probe tensors compared with
   (x - mean)/std computed from the exact integer statistics of the bag; two
   instances fed permutations / different splits of one bag must apply
   bit-identically; the no-statistics rule.
"""
import itertools
import json
import os
import random
import warnings

import numpy as np

import common
import std_model
from pydrobert.speech import post


def permutations_and_splits(run, tier, rng):
    nprng = np.random.RandomState(rng.randint(0, 2 ** 31 - 1))
    for trial in range(60 if tier == "quick" else 600):
        D = rng.choice([1, 2, 3, 5])
        B = rng.randint(2, 7)
        scale, offsets, dtypes = std_model.REGIMES[trial % len(std_model.REGIMES)]
        off = np.array((offsets * 2)[:D])
        data = nprng.randint(-6, 7, size=(B, D)) * scale + off
        probe = (nprng.randint(-5, 6, size=(4, D)) + off).astype(np.float64)
        outs = []
        descr = []
        for variant in range(4):
            s = post.Standardize(norm_var=bool(trial & 1))
            order = list(range(B))
            rng.shuffle(order)
            k = 0
            plan = []
            while k < B:
                take = rng.randint(1, B - k)
                rows = data[order[k:k + take]]
                if take == 1 and rng.random() < 0.7:
                    s.accumulate(rows[0].astype(rng.choice(dtypes)), **rng.choice([{}, {"axis": 0}, {"axis": -1}]))
                    plan.append(("vec", order[k:k + take]))
                else:
                    t, axis = std_model.layout_tensor([list(map(int, r)) for r in rows], rng, rng.choice(dtypes))
                    t = common.relayout(t, rng.choice(common.LAYOUTS))
                    if t.ndim == 1:
                        s.accumulate(t)
                    else:
                        s.accumulate(t, axis)
                    plan.append(("tensor", list(t.shape), axis, order[k:k + take]))
                k += take
            with warnings.catch_warnings():
                warnings.simplefilter("ignore")
                outs.append(s.apply(probe))
            descr.append(plan)
        run.evaluations += 1
        st = {"n": B, "sum": [int(v) for v in data.sum(0)], "sq": [int(v) for v in (data * data).sum(0)]}
        want = std_model.expected_apply(st, probe, 1, bool(trial & 1))
        for o, plan in zip(outs, descr):
            if o.tobytes() != outs[0].tobytes():
                run.violation({"kind": "same_bag_different_transform", "data": data.tolist(), "plan_a": descr[0], "plan_b": plan})
                break
            tol = std_model.tolerance(st)
            if not np.allclose(o, want, rtol=tol, atol=tol):
                run.violation({"kind": "apply_differs_from_statistics_given", "data": data.tolist(), "plan": plan})
                break


def no_stats_rule(run, tier, rng):
    nprng = np.random.RandomState(rng.randint(0, 2 ** 31 - 1))
    shapes = [(5, 3), (3, 5), (2, 4, 3), (1, 4, 3), (4, 1, 3), (3, 4, 1), (2, 1, 7, 3), (1, 1, 3), (6, 2, 2)]
    for sh in shapes:
        for axis in range(-len(sh), len(sh)):
            for norm_var in (True, False):
                for dt, scale, off in ((np.float64, 1, 0), (np.float32, 1, 0), (np.int16, 1, 0), (np.int16, 300, 0), (np.int8, 12, 0),
                                       (np.float64, 1, 1000), (np.float32, 1, -750), (np.int16, 1, 1000)):
                    x = common.relayout((nprng.randint(-9, 10, size=sh) * scale + off).astype(dt), rng.choice(common.LAYOUTS))
                    keep = x.copy()
                    x.flags.writeable = False
                    others = [sh[d] for d in range(len(sh)) if d != axis % len(sh)]
                    single = all(o == 1 for o in others)
                    s = post.Standardize(norm_var=norm_var)
                    if dt == np.float64 and off == 1000:
                        # "without statistics" is also an instance loaded from a file that holds a count of zero (an all-zero
                        # template of the right width)
                        import tempfile
                        with tempfile.TemporaryDirectory(prefix="verif_c16_tpl_") as tdir:
                            tp = os.path.join(tdir, "template.npy" if axis % 2 else "template.bin")
                            if tp.endswith(".npy"):
                                np.save(tp, np.zeros((2, sh[axis] + 1)))
                                s = post.Standardize(tp, norm_var=norm_var)
                            else:
                                np.zeros((2, sh[axis] + 1)).tofile(tp)
                                s = post.Standardize(tp, norm_var=norm_var, force_as="file")
                    run.evaluations += 1
                    with warnings.catch_warnings():
                        warnings.simplefilter("ignore")
                        try:
                            got = s.apply(x, axis=axis)
                        except ValueError:
                            if not (single and norm_var):
                                run.violation({"kind": "no_stats_tensor_refused", "shape": list(sh), "axis": axis, "norm_var": norm_var})
                            continue
                    if single:
                        # a single vector: an error with norm_var, zeros without
                        if norm_var or np.any(got != 0):
                            run.violation({"kind": "no_stats_single_vector_rule", "shape": list(sh), "axis": axis, "norm_var": norm_var})
                        continue
                    ax = tuple(d for d in range(len(sh)) if d != axis % len(sh))
                    x64 = keep.astype(np.float64)
                    mean = x64.mean(axis=ax, keepdims=True)
                    var = (x64 ** 2).mean(axis=ax, keepdims=True) - mean ** 2
                    want = x64 - mean
                    if norm_var:
                        want = want / np.sqrt(np.where(np.isclose(var, 0), 1.0, var))
                    if got.dtype != np.float64 or got.shape != want.shape or not np.allclose(got, want, rtol=1e-9, atol=1e-9):
                        run.violation({"kind": "no_stats_tensor_not_standardised_with_own_moments", "shape": list(sh), "axis": axis,
                                       "norm_var": norm_var, "dtype": str(np.dtype(dt))})
                    if not np.array_equal(x, keep):
                        run.violation({"kind": "apply_modified_input", "shape": list(sh)})
    # very many vectors in ONE accumulate call (a concatenated corpus): every one of them counts, like the same data in pieces
    for (nvec, D, axis) in ((32768 + 5, 2, -1), (65536 + 3, 1, 0), (70001, 2, 1)):
        data = nprng.randn(nvec, D) * 3 + np.arange(D) * 10
        data[32767::32768] += 1e4  # (the vectors at the block boundaries weigh visibly)
        arg = data if axis in (-1, 1) else np.ascontiguousarray(data.T)
        probe = nprng.randn(4, D)
        whole, pieces = post.Standardize(), post.Standardize()
        whole.accumulate(arg, axis=axis)
        for lo in range(0, nvec, 9001):
            pieces.accumulate(data[lo:lo + 9001], axis=-1)
        mean = data.mean(0)
        var = (data ** 2).mean(0) - mean ** 2
        want = (probe - mean) / np.sqrt(var)
        run.evaluations += 1
        for label, inst in (("one call", whole), ("pieces", pieces)):
            got = inst.apply(probe, axis=-1)
            if not np.allclose(got, want, rtol=1e-7, atol=1e-9):
                run.violation({"kind": "apply_differs_from_statistics_given", "n_vectors": nvec, "num_coeffs": D, "what": "many vectors accumulated in " + label,
                               "max_abs_error": float(np.max(np.abs(got - want)))})
    # in_place produces the same values
    for dt in (np.float64, np.float32):
        x = nprng.randn(6, 3).astype(dt)
        s = post.Standardize()
        s.accumulate(nprng.randint(-3, 4, size=(5, 3)).astype(np.float64))
        a = s.apply(x.copy(), in_place=False)
        b = s.apply(x.copy(), in_place=True)
        if a.dtype != np.float64 or b.dtype != np.float64 or not np.array_equal(a, b):
            run.violation({"kind": "in_place_differs", "dtype": str(np.dtype(dt))})


def loaded_statistics(run, tier, rng):
    """'With accumulated or LOADED statistics': statistics that went through a file (every kind of target) give the
    transform of the data they were accumulated from - including coefficients that never varied, at values binary
    floating point cannot hold exactly."""
    import os
    import shutil
    import tempfile
    nprng = np.random.RandomState(rng.randint(0, 2 ** 31 - 1))
    tmp = tempfile.mkdtemp(prefix="verif_c16_")
    try:
        k = 0
        for const in (0.7, 2.3, -3.3, 0.1):
            for n in (1, 2, 3, 8, 13, 40):
                for fn, kw in (("s.bin", {"force_as": "file"}), ("s.npy", {}), ("s.npz", {})):
                    data = np.stack([np.full(n, const), nprng.randn(n) * 3 - 20.0], axis=1)
                    probe = nprng.randn(3, 2) + np.array([const, -20.0])
                    s = post.Standardize()
                    s.accumulate(data)
                    k += 1
                    path = os.path.join(tmp, "%d_%s" % (k, fn))
                    run.evaluations += 1
                    mean = data.mean(0)
                    var = (data ** 2).mean(0) - mean ** 2
                    want = (probe - mean) / np.sqrt(np.where(np.isclose(var, 0), 1.0, var))
                    try:
                        with warnings.catch_warnings():
                            warnings.simplefilter("ignore")
                            s.save(path)
                            got = post.Standardize(path, **kw).apply(probe)
                    except Exception as e:
                        run.violation({"kind": "loaded_statistics_unusable", "target": fn, "constant_coefficient": const, "n_vectors": n, "error": repr(e)})
                        continue
                    if got.shape != want.shape or not np.allclose(got, want, rtol=1e-6, atol=1e-6):
                        run.violation({"kind": "apply_differs_from_statistics_given", "target": fn, "constant_coefficient": const, "n_vectors": n,
                                       "what": "statistics loaded from a file"})
        # statistics somebody else wrote in single precision (raw 2 x (D+1) matrix: sums and count, sums of squares): the
        # numbers given are what counts, and everything derived from them is computed in double precision - also after
        # more data was accumulated on top
        # (an even number of coefficients: with an odd one the byte count is also that of a smaller double-precision matrix, and
        # which of the two a file is then is a documented guess)
        for D in (2, 4, 6):
            for n in (8, 50):
                data = np.round(nprng.randn(n, D) * 2) + 1000.0 + np.arange(D)  # (sums and sums of squares exact in float32)
                stats = np.zeros((2, D + 1), dtype=np.float64)
                stats[0, :D], stats[0, D], stats[1, :D] = data.sum(0), n, (data ** 2).sum(0)
                given = stats.astype(np.float32).astype(np.float64)  # (the numbers in the file, whatever rounding they went through)
                k += 1
                path = os.path.join(tmp, "%d_f32.bin" % k)
                stats.astype(np.float32).tofile(path)
                more = nprng.randn(5, D) * 3 + 990.0
                probe = nprng.randn(3, D) * 2 + 1000.0
                run.evaluations += 1
                try:
                    with warnings.catch_warnings():
                        warnings.simplefilter("ignore")
                        t = post.Standardize(path, force_as="file")
                        got = [t.apply(probe)]
                        t.accumulate(more)
                        got.append(t.apply(probe))
                except Exception as e:
                    run.violation({"kind": "loaded_statistics_unusable", "target": "raw float32", "num_coeffs": D, "n_vectors": n, "error": repr(e)})
                    continue
                after = given.copy()
                after[0, :D] += more.sum(0)
                after[0, D] += len(more)
                after[1, :D] += (more ** 2).sum(0)
                for step, (g, st_) in enumerate(zip(got, (given, after))):
                    mean = st_[0, :D] / st_[0, D]
                    var = st_[1, :D] / st_[0, D] - mean ** 2
                    want = (probe - mean) / np.sqrt(np.where(np.isclose(var, 0), 1.0, var))
                    if g.shape != want.shape or g.dtype != np.float64 or not np.allclose(g, want, rtol=1e-6, atol=1e-6):
                        run.violation({"kind": "apply_differs_from_statistics_given", "target": "raw float32", "num_coeffs": D, "n_vectors": n,
                                       "what": "statistics loaded from a single-precision file" + (", then more data accumulated" if step else ""),
                                       "max_abs_error": float(np.max(np.abs(g - want))) if g.shape == want.shape else None})
                        break
    finally:
        shutil.rmtree(tmp, ignore_errors=True)


def run(tier, seed):
    run = common.Run("C16", tier, seed)
    rng = random.Random(seed)
    std_model.model_check(run, tier)
    std_model.drive(run, tier, rng, "acc")
    permutations_and_splits(run, tier, rng)
    no_stats_rule(run, tier, rng)
    loaded_statistics(run, tier, rng)
    run.extra["rule"] = "random call sequences of 2-7 operations over 3 instances and 4 files; 4 random permutations/splits/layouts per bag; no-statistics rule over 9 shapes x every axis"
    return run.finish()


def replay(path):
    v = json.load(open(path))
    print(json.dumps(v, indent=1)[:3000])
    if "trace" in v:
        rej, _ = common.validate_traces("MC_TraceStandardize", "TraceStandardize.cfg", [v["trace"]])
        print("re-validation:", rej or "accepted")
        return 1 if rej else 0
    return 0
