"""C13  Shorten-compressed SPHERE audio decodes losslessly.

S  TLC: Shorten.tla - an encoder written from the format and a decoder
   transcribed from _sphere.copy_shortened_samples over one bit string:
   exhaustive for tiny instances (every command, both versions, mean lengths,
   bit shift, block-size change, QLPC), random simulation of the general space;
   in every final state decode(encode(x)) = x, every proper prefix runs out of
   input, unknown version / command are errors, the decoder terminates.  A
   decoder with floor instead of C division is refuted (canary).
B  spec -> code: every behaviour TLC exports (header, bit string, samples) is
   packed into 32-bit big-endian words behind the `ajkg` magic inside a SPHERE
   header and decoded by the real code (path and stream): value, shape, dtype;
   word-truncated files, unknown version byte and an out-of-format command must
   raise IOError.  The six sph2pipe vectors against their reference WAVs.
"""
import io
import json
import os
import random
import shutil
import subprocess
import tempfile
import warnings
import wave

import numpy as np

import common
import c11
import c12
import sph_util
from pydrobert.speech import util


def simulate(num, depth, seed):
    """TLC -simulate with export; returns the list of exported final states."""
    d = tempfile.mkdtemp(prefix="verif_shn_")
    try:
        r = common.tlc("MC_Shorten", "Shorten_sim.cfg", workdir=d, workers=1, simulate="num=%d" % num, depth=depth,
                       seed=seed, timeout=3000, jvm=("-Xss256m",))
        return r
    finally:
        shutil.rmtree(d, ignore_errors=True)


def pack(bits):
    b = list(bits) + [0] * ((-len(bits)) % 32)
    out = bytearray()
    for i in range(0, len(b), 8):
        v = 0
        for k in b[i:i + 8]:
            v = (v << 1) | k
        out.append(v)
    return bytes(out)


def sph_wrap(hdr, stream, frames):
    ft = hdr["ftype"]
    if ft in (0, 8):
        h = sph_util.header(hdr["nchan"], frames, 1, "1", "ulaw,embedded-shorten-v2.00")
    else:
        h = sph_util.header(hdr["nchan"], frames, 2, "10" if ft == 3 else "01", "pcm,embedded-shorten-v2.00")
    return h + stream


def expected(hdr, data, ulaw):
    a = np.array(data, dtype=np.int64).T  # (frames, nchan)
    if hdr["ftype"] in (0, 8):
        a = ulaw[a]
    a = a.astype(np.int16)
    return a.reshape(-1) if hdr["nchan"] == 1 else a


def check_behaviour(run, k, beh, ulaw, tmp, rng):
    hdr, bits, data = beh["hdr"], beh["bits"], beh["data"]
    frames = len(data[0])
    if frames == 0:
        return False
    if any(len(ch) != frames for ch in data):
        raise common.MachineryError("exported behaviour with ragged channels")
    stream = b"ajkg" + bytes([hdr["version"]]) + pack(bits)
    blob = sph_wrap(hdr, stream, frames)
    want = expected(hdr, data, ulaw)
    run.evaluations += 1
    try:
        with warnings.catch_warnings():
            warnings.simplefilter("ignore")
            if k % 2:
                p = os.path.join(tmp, "s.sph")
                with open(p, "wb") as f:
                    f.write(blob)
                got = util.read_signal(p)
            else:
                got = util.read_signal(io.BytesIO(blob) if k % 4 else io.BufferedReader(c11.NoSeek(blob)), force_as="sph")  # (k % 4 == 0: a pipe)
    except Exception as e:
        run.violation({"kind": "shorten_decode_raised", "hdr": hdr, "commands": beh["note"], "error": repr(e), "bits": bits, "samples": data})
        return True
    if got.shape != want.shape or got.dtype != want.dtype or not np.array_equal(got, want):
        run.violation({"kind": "shorten_decode_differs_from_encoded_samples", "hdr": hdr, "commands": beh["note"],
                       "got_shape": list(got.shape), "want_shape": list(want.shape), "got_dtype": str(got.dtype),
                       "first_diff": int(np.argwhere(got.reshape(-1) != want.reshape(-1))[0][0]) if got.shape == want.shape and np.any(got != want) else None,
                       "bits": bits, "samples": data})
        return True
    if hdr["ftype"] in (0, 8):
        # a 1-byte dtype returns the stored mu-law codes themselves (both zeros, 0x7F and 0xFF, are distinct codes)
        codes = np.array(data, dtype=np.int64).T.astype(np.uint8)
        codes = codes.reshape(-1) if hdr["nchan"] == 1 else codes
        run.evaluations += 1
        try:
            with warnings.catch_warnings():
                warnings.simplefilter("ignore")
                raw = util.read_signal(io.BytesIO(blob), force_as="sph", dtype=np.uint8)
        except Exception as e:
            run.violation({"kind": "shorten_decode_raised", "hdr": hdr, "commands": beh["note"], "error": repr(e), "dtype_arg": "uint8"})
            return True
        if raw.shape != codes.shape or raw.dtype != np.uint8 or not np.array_equal(raw, codes):
            run.violation({"kind": "shorten_raw_codes_differ_from_encoded", "hdr": hdr, "commands": beh["note"],
                           "first_diff": int(np.argwhere(raw.reshape(-1) != codes.reshape(-1))[0][0]) if raw.shape == codes.shape else None,
                           "got": raw.reshape(-1)[:8].tolist(), "encoded": codes.reshape(-1)[:8].tolist()})
            return True
    # a stream that ends early: whole 32-bit words are cut so that a needed bit is missing
    nwords = (len(bits) + 31) // 32
    cuts = sorted({0, nwords - 1, rng.randrange(nwords)} - {nwords})
    for cut in cuts:
        if cut * 32 >= len(bits):
            continue
        t = sph_wrap(hdr, b"ajkg" + bytes([hdr["version"]]) + pack(bits)[: 4 * cut], frames)
        run.evaluations += 1
        try:
            with warnings.catch_warnings():
                warnings.simplefilter("ignore")
                util.read_signal(io.BytesIO(t), force_as="sph")
            run.violation({"kind": "truncated_shorten_stream_returned_data", "hdr": hdr, "words_kept": cut, "words": nwords, "bits": bits})
        except IOError:
            pass
        except Exception as e:
            run.violation({"kind": "truncated_shorten_stream_wrong_exception", "hdr": hdr, "words_kept": cut, "raised": repr(e), "bits": bits})
    if k % 5 == 0:
        for ver in (0, 3, 7):
            t = sph_wrap(hdr, b"ajkg" + bytes([ver]) + pack(bits), frames)
            run.evaluations += 1
            try:
                util.read_signal(io.BytesIO(t), force_as="sph")
                run.violation({"kind": "unknown_shorten_version_accepted", "version": ver})
            except IOError:
                pass
            except Exception as e:
                run.violation({"kind": "unknown_shorten_version_wrong_exception", "version": ver, "raised": repr(e)})
        # QUIT (0,1,0,0) replaced by the out-of-format command 9: bits 0,0,1,0,1
        # (... and by 10 and 13, each also with plenty of stream after it: an undefined code is refused for what it is, not
        # because the decoder runs out of bits while treating it as something else)
        if bits[-4:] == [0, 1, 0, 0]:
            for code_bits in ([0, 0, 1, 0, 1], [0, 0, 1, 1, 0], [0, 0, 0, 1, 0, 1]):
                for filler in ([], [int(b) for b in np.random.RandomState(len(bits)).randint(0, 2, size=320)]):
                    t = sph_wrap(hdr, b"ajkg" + bytes([hdr["version"]]) + pack(bits[:-4] + code_bits + filler), frames)
                    run.evaluations += 1
                    try:
                        with warnings.catch_warnings():
                            warnings.simplefilter("ignore")
                            util.read_signal(io.BytesIO(t), force_as="sph")
                        run.violation({"kind": "unknown_shorten_command_accepted", "hdr": hdr, "code_bits": code_bits, "bits_after": len(filler)})
                    except IOError:
                        pass
                    except Exception as e:
                        run.violation({"kind": "unknown_shorten_command_wrong_exception", "hdr": hdr, "raised": repr(e), "code_bits": code_bits,
                                       "bits_after": len(filler)})
    return True


def reference_vectors(run):
    audio = os.path.join(os.path.dirname(common.REPO_SRC), "tests", "audio")
    for name in ("123_1pcbe", "123_1pcle", "123_1ulaw", "123_2pcbe", "123_2pcle", "123_2ulaw"):
        sp, wv = os.path.join(audio, name + "_shn.sph"), os.path.join(audio, name + ".wav")
        if not (os.path.exists(sp) and os.path.exists(wv)):
            raise common.MachineryError("reference vector missing: " + name)
        w = wave.open(wv)
        ref = np.frombuffer(w.readframes(w.getnframes()), dtype="<i%d" % w.getsampwidth())
        if w.getnchannels() > 1:
            ref = ref.reshape(-1, w.getnchannels())
        w.close()
        run.evaluations += 1
        for mode in ("path", "stream"):
            try:
                got = util.read_signal(sp) if mode == "path" else util.read_signal(open(sp, "rb"), force_as="sph")
            except Exception as e:
                run.violation({"kind": "reference_vector_raised", "vector": name, "error": repr(e)})
                break
            if got.shape != ref.shape or not np.array_equal(got, ref):
                run.violation({"kind": "reference_vector_differs_from_wav", "vector": name, "got_shape": list(got.shape), "ref_shape": list(ref.shape)})
                break


def truncated_vectors(run, tier):
    """A stream that ends early is an IOError wherever it is cut - also at ragged byte offsets beyond the first 16 KiB
    read, where the word reader refills its buffer (the specification's streams are all shorter than one read)."""
    audio = os.path.join(os.path.dirname(common.REPO_SRC), "tests", "audio")
    for name in ("123_1pcle", "123_2ulaw") if tier == "quick" else ("123_1pcbe", "123_1pcle", "123_1ulaw", "123_2pcbe", "123_2pcle", "123_2ulaw"):
        b = open(os.path.join(audio, name + "_shn.sph"), "rb").read()
        hs, n = int(b.split(b"\n")[1]), len(b)
        cuts = {hs + 5, hs + 6, hs + 100, hs + 4097, hs + 16384, hs + 16385, n - 1, n - 2, n - 5, n - 1000}
        for k in range(0, 12 if tier == "quick" else 40):
            for r in (0, 1, 2, 3):
                cuts.add(hs + 16384 + 1021 + 1024 * k + r)
        for c in sorted(x for x in cuts if hs + 5 <= x < n):
            run.evaluations += 1
            try:
                with warnings.catch_warnings():
                    warnings.simplefilter("ignore")
                    util.read_signal(io.BytesIO(b[:c]), force_as="sph")
                run.violation({"kind": "truncated_stream_accepted", "vector": name, "data_bytes_kept": c - hs, "of": n - hs})
            except IOError:
                pass
            except Exception as e:
                run.violation({"kind": "truncated_stream_wrong_exception", "vector": name, "data_bytes_kept": c - hs, "of": n - hs,
                               "raised": type(e).__name__, "error": repr(e)[:200]})


def spec_on_vectors(run, tier, ulaw):
    """spec <- real data: TLC runs the specification's decoder on the first commands of the shipped vectors."""
    audio = os.path.join(os.path.dirname(common.REPO_SRC), "tests", "audio")
    cases, refs = [], []
    fuel = 12 if tier == "quick" else 40
    for name in ("123_1pcbe", "123_1pcle", "123_1ulaw", "123_2pcbe", "123_2pcle", "123_2ulaw"):
        d = open(os.path.join(audio, name + "_shn.sph"), "rb").read()
        hs = int(d.split(b"\n")[1])
        body = d[hs:]
        if body[:4] != b"ajkg":
            raise common.MachineryError("reference vector %s is not shorten-compressed" % name)
        nbytes = min(len(body) - 5, 600 * fuel)
        bits = []
        for byte in body[5:5 + nbytes]:
            for k in range(7, -1, -1):
                bits.append((byte >> k) & 1)
        cases.append({"version": int(body[4]), "bits": bits, "fuel": fuel})
        w = wave.open(os.path.join(audio, name + ".wav"))
        ref = np.frombuffer(w.readframes(w.getnframes()), dtype="<i%d" % w.getsampwidth())
        if w.getnchannels() > 1:
            ref = ref.reshape(-1, w.getnchannels())
        w.close()
        refs.append((name, ref))
    d = tempfile.mkdtemp(prefix="verif_sv_")
    try:
        inp, out = os.path.join(d, "c.json"), os.path.join(d, "t.json")
        json.dump(cases, open(inp, "w"))
        r = common.tlc("ShortenVectors", "ShortenVectors.cfg", workdir=d, workers=1, env={"IN_FILE": inp, "OUT_FILE": out},
                       timeout=1800, jvm=("-Xss512m",))
        rows = json.load(open(out))
    finally:
        shutil.rmtree(d, ignore_errors=True)
    total = 0
    for (name, ref), row in zip(refs, rows):
        chans = row["out"]
        n = min(len(c) for c in chans)
        if n == 0 or row["err"] not in ("nonterminating", "done"):
            raise common.MachineryError("specification decoder produced nothing for %s (%s)" % (name, row["err"]))
        got = np.array([c[:n] for c in chans], dtype=np.int64).T
        if row["hdr"]["ftype"] in (0, 8):
            got = ulaw[got]
        got = got.reshape(-1) if ref.ndim == 1 else got
        total += n
        run.evaluations += 1
        if not np.array_equal(got, ref[:n]):
            # the specification's reading of the format disagrees with data from the original encoder: the
            # specification (not the code) is wrong - a machinery failure, never a violation of C13
            raise common.MachineryError("Shorten.tla's decoder disagrees with reference vector %s within the first %d frames" % (name, n))
    run.extra["spec_decoder_on_reference_vectors"] = {"vectors": len(rows), "frames_compared": total, "commands_per_vector": fuel}


def run(tier, seed):
    run = common.Run("C13", tier, seed)
    rng = random.Random(seed)
    for cfg, name in (("Shorten_tiny.cfg" if tier == "quick" else "Shorten_tiny_thorough.cfg", "Shorten(tiny)"), ("Shorten_lpc.cfg", "Shorten(lpc)"),
                      ("Shorten_bs.cfg", "Shorten(block sizes that shrink and grow back)"),
                      ("Shorten_tiny2.cfg" if tier == "quick" else "Shorten_tiny2_thorough.cfg", "Shorten(two channels, shift changing inside a frame)")):
        r = common.tlc("MC_Shorten", cfg, timeout=3000, jvm=("-Xss64m",))
        if r.violated:
            run.violation({"kind": "model_" + r.violated, "module": name, "detail": r.errtext[-3000:]})
        run.add_tlc(name, r)
    rc = common.tlc("MC_Shorten", "Shorten_canary.cfg", workers=8, timeout=600, jvm=("-Xss64m",))
    if rc.violated != "C13_DecodeOfEncodeIsIdentity":
        raise common.MachineryError("canary: floor-division decoder was not refuted (%r)" % rc.violated)
    run.extra.setdefault("canaries", []).append({"module": "Shorten", "variant": "MeanRule=floor (decoder)", "refuted_by": rc.violated})
    # the general space: simulation, exported behaviours
    from concurrent.futures import ThreadPoolExecutor
    nproc = 8
    per = 80 if tier == "quick" else 2500
    with ThreadPoolExecutor(max_workers=nproc) as ex:
        res = list(ex.map(lambda i: simulate(per, 140, seed * 1000 + i + 1), range(nproc)))
    behs = []
    for r in res:
        if r.violated:
            run.violation({"kind": "model_" + r.violated, "module": "Shorten(sim)", "detail": r.errtext[-3000:]})
        behs += r.exported
        run.states += r.generated
        run.transitions += r.generated
    run.tlc_runs.append({"module": "Shorten(sim)", "behaviours_exported": len(behs), "simulation": "num=%d x %d seeds, depth 140" % (per, nproc)})
    if len(behs) < per:
        raise common.MachineryError("simulation exported only %d behaviours" % len(behs))
    g711 = c12.export("G711", "G711.cfg")
    ulaw = np.array(g711["ulaw"], dtype=np.int64)
    cmds = {}
    used = 0
    tmp = tempfile.mkdtemp(prefix="verif_c13_")
    try:
        for k, beh in enumerate(behs):
            if check_behaviour(run, k, beh, ulaw, tmp, rng):
                used += 1
                for c in beh["note"]:
                    cmds[c] = cmds.get(c, 0) + 1
    finally:
        shutil.rmtree(tmp, ignore_errors=True)
    # the fixed corpus exported earlier from the same specification (harness/data/shorten_corpus.json; C11 replays it too)
    corpus = json.load(open(os.path.join(os.path.dirname(os.path.abspath(__file__)), "data", "shorten_corpus.json")))["behaviours"]
    tmp2 = tempfile.mkdtemp(prefix="verif_c13c_")
    try:
        for k, beh in enumerate(corpus):
            if check_behaviour(run, k + 1, beh, ulaw, tmp2, rng):
                used += 1
    finally:
        shutil.rmtree(tmp2, ignore_errors=True)
    run.extra["corpus_behaviours_replayed"] = len(corpus)
    run.traces += used
    names = {0: "DIFF0", 1: "DIFF1", 2: "DIFF2", 3: "DIFF3", 4: "QUIT", 5: "BLOCKSIZE", 6: "BITSHIFT", 7: "QLPC", 8: "ZERO"}
    run.extra["commands_replayed"] = {names[c]: n for c, n in sorted(cmds.items())}
    missing = [names[c] for c in names if c not in cmds]
    # BITSHIFT between the channel blocks of one frame (the shift is decoder-wide; channels may differ)
    midframe = 0
    for beh in behs:
        ch = 0
        for c in beh["note"]:
            if c == 6 and ch % beh["hdr"]["nchan"]:
                midframe += 1
                break
            if c in (0, 1, 2, 3, 7, 8):
                ch += 1
    run.extra["behaviours_with_shift_change_inside_a_frame"] = midframe
    if not midframe:
        raise common.MachineryError("vacuous: no exported behaviour changes the bit shift between channel blocks")
    if missing:
        raise common.MachineryError("vacuous: commands never emitted by the exported behaviours: %s" % missing)
    b = behs[0]
    run.sample({"hdr": b["hdr"], "commands": b["note"], "n_bits": len(b["bits"]), "samples": b["data"]})
    reference_vectors(run)
    truncated_vectors(run, tier)
    spec_on_vectors(run, tier, ulaw)
    run.not_decided.append("mu-law streams with a bit shift > 0 (rows 1-12 of shorten's own outward table have no independent definition offline): not generated")
    run.extra["rule"] = "exhaustive tiny instances + %d simulated behaviours (versions 1-2, S16HL/S16LH/AU1/AU2, 1-3 channels, block sizes 1-8 with shrinking changes, nmean 0-4, maxnlpc 0-3, bit shifts 0-3)" % len(behs)
    return run.finish()


def replay(path):
    v = json.load(open(path))
    print(json.dumps({k: v[k] for k in v if k not in ("bits",)}, indent=1)[:3000])
    return 0
