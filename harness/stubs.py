"""Tiny banks / windows defined outside the repository, using only the public
abstract interface, so that the real frame computers run unmodified in the
small instances TLC exhausts (DESIGN.md section 4)."""
import numpy as np

from pydrobert.speech import filters as F
from pydrobert.speech import compute as C

RATE = 1000  # one sample per millisecond: frame sizes are the integer ms given


class StubBank(F.LinearFilterBank):
    """Explicit impulse responses.  taps[i] is the list of taps of filter i,
    lefts[i] the sample index of its first tap (may be negative)."""

    aliases = set()

    def __init__(self, taps, lefts, rate=RATE, real=True, zero_phase=False):
        self._taps = [np.asarray(t, dtype=np.float64 if real else np.complex128) for t in taps]
        self._lefts = list(lefts)
        self._rate = rate
        self._real = real
        self._zp = zero_phase

    is_real = property(lambda self: self._real)
    is_analytic = property(lambda self: False)
    is_zero_phase = property(lambda self: self._zp)
    num_filts = property(lambda self: len(self._taps))
    sampling_rate = property(lambda self: self._rate)
    supports_hz = property(lambda self: [(0.0, float(self._rate))] * len(self._taps))
    supports = property(lambda self: [(l, l + len(t)) for l, t in zip(self._lefts, self._taps)])
    supports_ms = property(lambda self: [(a * 1000.0 / self._rate, b * 1000.0 / self._rate) for a, b in self.supports])

    def get_impulse_response(self, filt_idx, width):
        out = np.zeros(width, dtype=np.float64 if self._real else np.complex128)
        for k, v in enumerate(self._taps[filt_idx]):
            out[(self._lefts[filt_idx] + k) % width] += v
        return out

    def get_frequency_response(self, filt_idx, width, half=False):
        ir = self.get_impulse_response(filt_idx, width)
        fr = np.fft.fft(ir)
        if half:
            return fr[: width // 2 + 1]
        return fr

    def get_truncated_response(self, filt_idx, width):
        fr = self.get_frequency_response(filt_idx, width, half=self._real)
        return 0, fr


class OneHotBank(F.LinearFilterBank):
    """Each filter's truncated response is given explicitly: (start, taps).  With
    taps = e_j (unit vector) the real compute_full returns |X[k_j]|^p: a probe of
    which DFT bin tap j is multiplied with."""

    aliases = set()

    def __init__(self, specs, width, rate=RATE, real=False):
        self._specs = [(int(s), np.asarray(t, dtype=np.complex128)) for s, t in specs]
        self._width = width
        self._rate = rate
        self._real = real

    is_real = property(lambda self: self._real)
    is_analytic = property(lambda self: False)
    is_zero_phase = property(lambda self: True)
    num_filts = property(lambda self: len(self._specs))
    sampling_rate = property(lambda self: self._rate)
    supports_hz = property(lambda self: [(0.0, float(self._rate))] * len(self._specs))
    supports = property(lambda self: [(0, self._width)] * len(self._specs))
    supports_ms = property(lambda self: [(0.0, self._width * 1000.0 / self._rate)] * len(self._specs))

    def get_impulse_response(self, filt_idx, width):
        return np.fft.ifft(self.get_frequency_response(filt_idx, width))

    def get_frequency_response(self, filt_idx, width, half=False):
        s, t = self._specs[filt_idx]
        out = np.zeros(width, dtype=np.complex128)
        for j, v in enumerate(t):
            out[(s + j) % width] += v
        if half:
            return out[: width // 2 + 1]
        return out

    def get_truncated_response(self, filt_idx, width):
        assert width == self._width, (width, self._width)
        s, t = self._specs[filt_idx]
        return s, t.copy()


class Ones(F.WindowFunction):
    aliases = set()

    def get_impulse_response(self, width):
        return np.ones(max(width, 0))


class Ramp(F.WindowFunction):
    """All taps distinct and positive, so a wrong window column changes values."""

    aliases = set()

    def get_impulse_response(self, width):
        return 1.0 + np.arange(max(width, 0), dtype=np.float64) / 4.0


class ThirdsRamp(F.WindowFunction):
    """Like Ramp, with taps no binary floating-point type narrower than double holds exactly."""

    aliases = set()

    def get_impulse_response(self, width):
        return (1.0 + np.arange(max(width, 0), dtype=np.float64)) / 3.0


def unregister_stubs():
    """Stub classes have no aliases, so they never interfere with alias lookups."""
    return None


STYLES = ("causal", "centered", "kaldi")
# "causal+k": frame_style causal with kaldi_shift=True - kaldi_shift is documented to matter only for centered frames
ALL_STYLES = STYLES + ("causal+k",)


def spec_style(st):
    return "causal" if st == "causal+k" else st


def make_stft(L, S, style, bank=None, window=None, pad=False, **kw):
    if bank is None:
        bank = F.TriangularOverlappingFilterBank("mel", num_filts=2, sampling_rate=RATE)
    if window is None:
        window = F.HammingWindow()
    c = C.STFTFrameComputer(
        bank, frame_length_ms=L, frame_shift_ms=S,
        frame_style="causal" if style in ("causal", "causal+k") else "centered",
        kaldi_shift=(style in ("kaldi", "causal+k")), pad_to_nearest_power_of_two=pad,
        window_function=window, **kw)
    if c.frame_length != L or c.frame_shift != S:
        raise RuntimeError("tiny-instance assumption broken: asked L=%d S=%d got %d %d" % (L, S, c.frame_length, c.frame_shift))
    return c


class FrameTap:
    """Wraps (does not replace) computer._compute_frame to record the frames the
    computer hands to it.  The original is still called, so a change inside
    _compute_frame stays visible in the returned values."""

    def __init__(self, computer):
        self.frames = []
        self._orig = computer._compute_frame
        tap = self

        def wrapped(frame, coeffs):
            tap.frames.append(np.array(frame, dtype=np.float64, copy=True))
            return tap._orig(frame, coeffs)

        computer._compute_frame = wrapped

    def take(self):
        out, self.frames = self.frames, []
        return out


TORCH_LAYOUTS = ("plain", "offset", "strided", "batchrow", "negoffset")
_TORCH_TICK = [0]


def torch_layout(x, dtype=None, kind=None):
    """The same samples as a torch tensor in another memory layout: a fresh tensor, a view into a larger buffer (storage
    offset 7), every other element of a buffer, a row of a batch, the tail of a buffer.  `kind=None` cycles."""
    import torch
    t = torch.tensor(x) if dtype is None else torch.tensor(x, dtype=dtype)
    if kind is None:
        _TORCH_TICK[0] += 1
        kind = TORCH_LAYOUTS[_TORCH_TICK[0] % len(TORCH_LAYOUTS)]
    n = t.shape[0] if t.dim() else 0
    if kind == "plain" or t.dim() != 1:
        return t
    if kind == "offset":
        big = torch.full((n + 7,), 123.0, dtype=t.dtype)
        big[7:] = t
        return big[7:]
    if kind == "strided":
        big = torch.full((2 * n,), -55.0, dtype=t.dtype)
        big[::2] = t
        return big[::2]
    if kind == "batchrow":
        batch = torch.full((3, n), 9.0, dtype=t.dtype)
        batch[1] = t
        return batch[1]
    big = torch.full((n + 11,), 77.0, dtype=t.dtype)
    big[11:] = t
    return big[11:]
