"""C09  Command-line tools store exactly what the library pipeline computes.

S  TLC: Pipeline.tla - per utterance: read, excluded or pre-processors in
   order, computer (or raw column), post-processors in order, written once under
   its own id; excluded utterances are never written.  The variant that ignores
   the post-processors (the pre-repair kaldi tool) is refuted (canary).
B  code -> spec: both tools are run for real (in-process / forked) with the
   guarded hooks on; the stage events of every utterance and the ids found in
   the output are validated by TLC (TracePipeline).  Output values: the kaldi
   archive (read back with pydrobert-kaldi) and the .pt files are compared with
   the library pipeline executed by the harness on the same inputs
   (read_signal, PreProcessor.apply in order, compute_full, PostProcessor.apply
   in order) at float32 precision; inline JSON / JSON file / YAML file give the
   same features; a fixed --seed gives identical output twice.
"""
import json
import os
import random
import shutil
import sys
import tempfile
import warnings
import wave

import numpy as np

import common
import sph_util
import c10
from pydrobert.speech import alias, compute, pre, post, util

RATE = 8000
# (every option spelled out with its documented default: written inline this is longer than a file name may be, 255 bytes)
COMPUTER = {"name": "stft", "bank": {"name": "fbank", "num_filts": 5, "sampling_rate": RATE}, "frame_length_ms": 20, "frame_shift_ms": 10,
            "include_energy": True, "frame_style": None, "pad_to_nearest_power_of_two": True, "window_function": None, "use_log": True,
            "use_power": False, "kaldi_shift": False}
PRES = [[], ["preemph"], ["dither", {"name": "preemph", "coeff": 0.9}]]
POSTS = [[], [{"name": "deltas", "num_deltas": 1}], [{"name": "stack", "num_vectors": 2}, {"name": "deltas", "num_deltas": 2}]]
# the same step twice: written as YAML this is an anchor and an alias of it (one object after parsing), as JSON two equal objects
_TWICE = {"name": "deltas", "num_deltas": 1, "context_window": 1}
POSTS.append([_TWICE, _TWICE])


def fresh(cfg):
    """the library gets its own copy of a configuration: what it does to it must not reach the harness"""
    return json.loads(json.dumps(cfg))


def opname(cfg):
    a = cfg if isinstance(cfg, str) else cfg.get("alias", cfg.get("name"))
    return {"preemph": "Preemphasize", "dither": "Dither", "deltas": "Deltas", "stack": "Stack"}[a]


def write_wav(path, x, rate=RATE):
    x = np.asarray(x)
    w = wave.open(path, "wb")
    w.setnchannels(1 if x.ndim == 1 else x.shape[1])
    w.setsampwidth(2)
    w.setframerate(rate)
    w.writeframes(x.astype("<i2").tobytes())
    w.close()


def config_arg(cfg, syntax, d, name):
    if syntax == "inline":
        return json.dumps(cfg)
    if syntax == "json":
        p = os.path.join(d, name + ".json")
        json.dump(cfg, open(p, "w"))
        return p
    p = os.path.join(d, name + ".yaml")
    from ruamel.yaml import YAML
    with open(p, "w") as f:
        YAML(typ="safe").dump(cfg, f)
    return p


def group_events(trace_path):
    """events per utterance, each pid's events in seq order (one utterance is handled within one process
    up to the hand-over to the main process, whose events come last)"""
    ev = []
    if os.path.exists(trace_path):
        ev = [json.loads(l) for l in open(trace_path)]
    per = {}
    for e in sorted(ev, key=lambda r: (r["event"] in ("save_begin", "save_end", "manifest_print"), r["pid"], r["seq"])):
        if "utt" not in e:
            continue
        name = e["event"]
        if name in ("pre", "post"):
            name = name + ":" + e["op"].replace("PyTorch", "")
        if name in ("save_begin", "manifest_print", "crash"):
            continue
        if name == "save_end":
            name = "write"
        per.setdefault(e["utt"], []).append(name)
    return per


def library_kaldi(signals, order, pre_cfg, post_cfg, seed):
    """What the library computes, the way the kaldi tool is specified to drive it."""
    np.random.seed(seed)
    comp = alias.alias_factory_subclass_from_arg(compute.FrameComputer, json.loads(json.dumps(COMPUTER)))
    pres = [alias.alias_factory_subclass_from_arg(pre.PreProcessor, fresh(c)) for c in pre_cfg]
    posts = [alias.alias_factory_subclass_from_arg(post.PostProcessor, fresh(c)) for c in post_cfg]
    out = {}
    for uid in order:
        x = signals[uid].astype(np.float64)
        for p in pres:
            x = p.apply(x)
        f = comp.compute_full(x)
        if f.shape[0]:
            for q in posts:
                f = q.apply(f)
        out[uid] = f.astype(np.float32)
    return out


def kaldi_runs(run, tier, rng, root, traces):
    from pydrobert.kaldi.io import open as kopen
    from pydrobert.speech import command_line as cl
    nprng = np.random.RandomState(rng.randint(0, 2 ** 31 - 1))
    d = os.path.join(root, "kaldi")
    os.makedirs(d)
    utts = {}
    spec = [("k01_ok", 900, 1, RATE, None), ("k02_ok", 1500, 1, RATE, None), ("k03_short", 40, 1, RATE, "empty"),
            ("k04_stereo", 1000, 2, RATE, None), ("k05_rate", 1200, 1, 16000, "rate"), ("k06_ok", 700, 1, RATE, None),
            ("k07_one_frame", 100, 1, RATE, None), ("k08_two_frames", 161, 1, RATE, None),
            ("k09_exactly_min_duration", 1000, 1, RATE, None), ("k10_half_a_frame", 80, 1, RATE, "empty")]  # 1000 / 8000 s = 0.125 s, exactly representable
    with open(os.path.join(d, "wav.scp"), "w") as scp:
        for (uid, n, ch, rate, why) in spec:
            x = nprng.randint(-3000, 3000, size=(n,) if ch == 1 else (n, ch))
            p = os.path.join(d, uid + ".wav")
            write_wav(p, x, rate)
            scp.write("%s %s\n" % (uid, p))
            utts[uid] = (x, ch, rate, why)
    combos = [(p, q, s) for p in range(3) for q in range(3) for s in ("inline", "json", "yaml")]
    if tier == "quick":
        combos = [c for i, c in enumerate(combos) if i % 3 == (c[0] + c[1]) % 3]
    tid = len(traces)
    # --min-duration is the minimum duration that IS processed: the last pass excludes everything shorter than 0.125 s
    # and keeps the utterance that lasts exactly 0.125 s
    for (pi, qi, syntax, min_dur) in [c + (0.0,) for c in combos] + [(1, 1, "inline", 0.125), (0, 3, "yaml", 0.0), (2, 3, "json", 0.0)]:
        pre_cfg, post_cfg = PRES[pi], POSTS[qi]
        for channel in (-1, 1):
            if channel == 1 and ((pi + qi) % 2 or min_dur):
                continue
            ark = os.path.join(d, "feats_%d_%d_%s_%d_%d.ark" % (pi, qi, syntax, channel, int(min_dur * 1000)))
            trace = os.path.join(d, "trace.ndjson")
            if os.path.exists(trace):
                os.remove(trace)
            os.environ["PYDROBERT_SPEECH_VERIF_TRACE"] = trace
            args = ["scp,s:" + os.path.join(d, "wav.scp"), "ark:" + ark, config_arg(COMPUTER, syntax, d, "comp"), "--seed=11"]
            if pre_cfg:
                args.append("--preprocess=" + config_arg(pre_cfg, syntax, d, "pre"))
            if post_cfg:
                args.append("--postprocess=" + config_arg(post_cfg, syntax, d, "post"))
            if channel != -1:
                args.append("--channel=%d" % channel)
            if min_dur:
                args.append("--min-duration=%s" % min_dur)
            saved = os.dup(2)
            devnull = os.open(os.devnull, os.O_WRONLY)
            try:
                os.dup2(devnull, 2)  # the tool logs every utterance
                with warnings.catch_warnings():
                    warnings.simplefilter("ignore")
                    rc = cl.compute_feats_from_kaldi_tables(args)
            finally:
                os.dup2(saved, 2)
                os.close(saved)
                os.close(devnull)
            os.environ.pop("PYDROBERT_SPEECH_VERIF_TRACE", None)
            run.evaluations += 1
            if rc not in (0, None):
                run.violation({"kind": "kaldi_tool_failed", "rc": rc, "pre": pre_cfg, "post": post_cfg, "syntax": syntax})
                continue
            # which utterances the statement includes, and with which samples
            included, signals = [], {}
            for (uid, n, ch, rate, why) in spec:
                x = utts[uid][0]
                if n / float(rate) < min_dur:
                    continue  # shorter than --min-duration
                if rate != RATE:
                    continue  # sampling-rate mismatch
                if channel != -1 and channel >= ch:
                    continue  # channel mismatch
                cur = 0 if channel == -1 else channel
                signals[uid] = x if ch == 1 else x[:, cur]
                included.append(uid)
            with kopen("ark:" + ark, "bm") as f:
                stored = list(f.items())
            ids = [k for k, _ in stored]
            want = library_kaldi(signals, included, pre_cfg, post_cfg, 11)
            for u in included:
                if u not in ids:
                    run.violation({"kind": "utterance_missing_from_output", "tool": "kaldi", "utt": u, "pre": pre_cfg, "post": post_cfg,
                                   "channel": channel, "min_duration": min_dur})
            for u in ids:
                if u not in included:
                    run.violation({"kind": "excluded_utterance_in_output", "tool": "kaldi", "utt": u, "channel": channel, "min_duration": min_dur})
            # With a random pre-processor (dither) the statement fixes the pipeline, not the noise: "with a fixed --seed
            # two runs produce identical output".  The tool as it stands draws the noise from numpy's generator seeded once
            # with --seed, utterances in table order, and the reference replays exactly that; a tree that seeds differently
            # is held to what the statement says - same output for the same seed, and the features of the configured
            # pipeline up to the size of the noise (one unit against samples of +-3000).
            dithered = any(opname(c) == "Dither" for c in pre_cfg)
            replay_ok = all(v.shape == want[k].shape and (v.shape[0] == 0 or np.allclose(v, want[k], rtol=1e-4, atol=1e-4))
                            for k, v in stored if k in want)
            if dithered and not replay_ok:
                quiet = library_kaldi(signals, included, [c for c in pre_cfg if opname(c) != "Dither"], post_cfg, 11)
                ark2 = ark + ".again"
                args2 = [("ark:" + ark2) if a == "ark:" + ark else a for a in args]
                saved = os.dup(2)
                devnull = os.open(os.devnull, os.O_WRONLY)
                try:
                    os.dup2(devnull, 2)
                    with warnings.catch_warnings():
                        warnings.simplefilter("ignore")
                        rc2 = cl.compute_feats_from_kaldi_tables(args2)
                finally:
                    os.dup2(saved, 2)
                    os.close(saved)
                    os.close(devnull)
                with kopen("ark:" + ark2, "bm") as f:
                    again = list(f.items())
                if rc2 not in (0, None) or [k for k, _ in again] != ids or any(a.shape != v.shape or a.tobytes() != v.tobytes()
                                                                                for (_, a), (_, v) in zip(again, stored)):
                    run.violation({"kind": "fixed_seed_two_runs_differ", "tool": "kaldi", "pre": pre_cfg, "post": post_cfg, "syntax": syntax})
                want = quiet
                run.extra["kaldi_dither_not_replayed"] = "noise realisation differs from numpy seeded once with --seed: held to determinism and to the pipeline up to the noise"
            for k, v in stored:
                if k in want:
                    w = want[k]
                    if v.shape[0] == 0 and w.shape[0] == 0:
                        continue  # a kaldi archive does not keep the column count of an empty matrix
                    if dithered and not replay_ok:
                        if v.shape != w.shape or not np.allclose(v, w, rtol=2e-2, atol=5e-2):
                            run.violation({"kind": "kaldi_stored_features_differ_from_library_pipeline", "utt": k, "pre": pre_cfg, "post": post_cfg,
                                           "syntax": syntax, "channel": channel, "stored_shape": list(v.shape), "library_shape": list(w.shape),
                                           "what": "beyond what one unit of dither noise explains"})
                        continue
                    if v.shape != w.shape or not np.allclose(v, w, rtol=1e-4, atol=1e-4):
                        run.violation({"kind": "kaldi_stored_features_differ_from_library_pipeline", "utt": k, "pre": pre_cfg, "post": post_cfg,
                                       "syntax": syntax, "channel": channel, "stored_shape": list(v.shape), "library_shape": list(w.shape)})
            per = group_events(trace)
            tid += 1
            traces.append({"tid": tid, "tool": "kaldi", "pre": [opname(c) for c in pre_cfg], "post": [opname(c) for c in post_cfg],
                           "computer": True, "empty_skips_post": True, "write_event": True, "output": ids,
                           "utts": [{"id": uid, "excluded": uid not in included, "empty": utts[uid][3] == "empty",
                                     "events": per.get(uid, [])} for (uid, *_rest) in spec],
                           "config": {"syntax": syntax, "channel": channel, "min_duration": min_dur}})


COMPUTERS2 = [
    {"name": "stft", "bank": {"name": "gabor", "scaling_function": "mel", "num_filts": 6, "sampling_rate": RATE},
     "frame_length_ms": 25.125, "frame_shift_ms": 10},                      # odd frame length (201), padded DFT (256), complex wrapping bank
    {"name": "stft", "bank": {"name": "tonebank", "scaling_function": "bark", "num_filts": 4, "sampling_rate": RATE},
     "frame_length_ms": 20, "frame_shift_ms": 7.125, "pad_to_nearest_power_of_two": False, "kaldi_shift": True, "frame_style": "centered"},  # even length (160), odd shift (57)
    {"name": "si", "bank": {"name": "gabor", "scaling_function": "mel", "num_filts": 3, "sampling_rate": RATE}, "frame_shift_ms": 10},
    {"name": "stft", "bank": {"name": "fbank", "num_filts": 4, "sampling_rate": RATE}, "frame_length_ms": 30, "frame_shift_ms": 10,
     "frame_style": "causal", "kaldi_shift": True},   # kaldi_shift is documented to matter only for centered frames
]


def torch_runs(run, tier, rng, root, traces, computer=None, seed=5, combos=None, tag=""):
    global COMPUTER
    if computer is not None:
        saved = COMPUTER
        COMPUTER = computer
        try:
            return torch_runs(run, tier, rng, os.path.join(root, "alt" + tag), traces, None, seed, combos, tag)
        finally:
            COMPUTER = saved
    import torch
    from pydrobert.speech import torch as pt
    nprng = np.random.RandomState(rng.randint(0, 2 ** 31 - 1))
    d = os.path.join(root, "torch")
    os.makedirs(os.path.join(d, "raw"), exist_ok=True)
    spec = []
    lines = []
    for k, (n, cont) in enumerate([(900, "wav"), (1300, "npy"), (60, "npy"), (1100, "pt"), (800, "sph"), (1000, "npy2"),
                                   (100, "npy"), (161, "wav"), (80, "npy"), (5, "npy"),
                                   (1050, "npy1"), (1000, "npy0")]):  # (80 = frame_length / 2 exactly: still no frame; npy1: mono, stored channels-first as (1, S))
        # (ids are matched whole: "t00" is not done because "t00x" is)
        # (... and may contain dots: "sp1.0-t04" and "sp1.1-t05" are two utterances, each stored under its own name)
        uid = {0: "t00x", 3: "t00", 4: "sp1.0-t04", 5: "sp1.1-t05", 8: "t_half_frame", 9: "t_five_samples", 10: "t_mono_1xS", 11: "t_silence_and_whisper"}.get(k, "t%02d" % k)
        x = nprng.randint(-3000, 3000, size=n).astype(np.int16)
        p = os.path.join(d, "raw", uid + "." + cont.replace("npy2", "npy").replace("npy1", "npy").replace("npy0", "npy"))
        if cont == "npy0":
            # digital silence, then samples of the order of 0.01 (float audio scaled to [-1, 1]): every log coefficient of the first
            # half sits at the floor, those of the second half just above it
            x = np.concatenate([np.zeros(500), nprng.randn(500) * 0.01])
            np.save(p, x.astype(np.float32))
            x = x.astype(np.float32)
        elif cont == "wav":
            write_wav(p, x)
        elif cont == "npy":
            np.save(p, x.astype(np.float32))
        elif cont == "npy1":
            np.save(p, x[None, :].astype(np.float32))
        elif cont == "npy2":
            x2 = np.stack([x, x[::-1]])  # channels first
            np.save(p, x2.astype(np.float32))
        elif cont == "pt":
            torch.save(torch.from_numpy(x.astype(np.float32)), p)
        else:
            open(p, "wb").write(sph_util.pcm_file(x))
        spec.append((uid, p, cont, x))
        lines.append("%s %s" % (uid, p))
    # several utterances in one archive, selected by utterance id (the tool passes the id as read_signal's key)
    import h5py
    multi = []
    for k, n in ((8, 950), (9, 700), (10, 1200), (11, 640)):
        multi.append(("t%02d" % k, nprng.randint(-3000, 3000, size=n).astype(np.int16)))
    p_npz, p_h5 = os.path.join(d, "raw", "multi.npz"), os.path.join(d, "raw", "multi.hdf5")
    np.savez(p_npz, **{u: x.astype(np.float32) for u, x in multi[:2]})
    with h5py.File(p_h5, "w") as f:
        for u, x in multi[2:]:
            f.create_dataset(u, data=x.astype(np.float32))
    for j, (u, x) in enumerate(multi):
        spec.append((u, p_npz if j < 2 else p_h5, "multi", x))
    if combos is None:
        combos = [(p, q, s) for p in range(3) for q in range(3) for s in ("inline", "json", "yaml")]
        if tier == "quick":
            combos = [c for i, c in enumerate(combos) if i % 3 == (c[0] + 2 * c[1]) % 3]
        combos = combos + [(0, 3, "yaml")]
    tid = len(traces)
    firsts = {}
    for (pi, qi, syntax) in combos:
        pre_cfg, post_cfg = PRES[pi], POSTS[qi]
        for (channel, with_comp, workers) in ((-1, True, 0), (1, True, 2), (-1, False, 0)):
            if (channel == 1 or not with_comp) and (pi + qi) % 3:
                continue
            # --channel -1: only the mono utterances; --channel 1: only the channels-first stereo one
            chosen = [s for s in spec if (s[2] == "npy2") == (channel == 1)]
            if qi == 2 and not with_comp:
                continue  # (Stack then Deltas of a raw column: nothing new over qi == 1)
            if any(isinstance(c, dict) and c.get("name") == "stack" for c in post_cfg):
                chosen = [s for s in chosen if len(s[3]) >= 400]  # Standardize/Stack on an empty matrix is not the tool's business
            mp = os.path.join(d, "map_%d" % channel)
            open(mp, "w").write("\n".join("%s %s" % (s[0], s[1]) for s in chosen) + "\n")
            outs = []
            for rep in range(2):
                out = os.path.join(d, "out_%d_%d_%s_%d_%d_%d" % (pi, qi, syntax, channel, with_comp, rep))
                trace = os.path.join(d, "trace.ndjson")
                if os.path.exists(trace):
                    os.remove(trace)
                args = [mp] + ([config_arg(COMPUTER, syntax, d, "comp")] if with_comp else []) + [out, "--seed=%d" % seed, "--num-workers=%d" % workers]
                if pre_cfg:
                    args.append("--preprocess=" + config_arg(pre_cfg, syntax, d, "pre"))
                if post_cfg:
                    args.append("--postprocess=" + config_arg(post_cfg, syntax, d, "post"))
                if channel != -1:
                    args.append("--channel=%d" % channel)
                np.random.seed(rep + 3)
                pid, st = run_forked(args, trace)
                run.evaluations += 1
                if not (os.WIFEXITED(st) and os.WEXITSTATUS(st) == 0):
                    run.violation({"kind": "torch_tool_failed", "status": st, "pre": pre_cfg, "post": post_cfg, "syntax": syntax,
                                   "channel": channel, "computer": with_comp})
                    break
                res = {}
                for fn in sorted(os.listdir(out)):
                    res[fn[:-3]] = c10.load_tensor(os.path.join(out, fn))
                outs.append((res, group_events(trace)))
            if len(outs) < 2:
                continue
            (a, per), (b, _) = outs
            if sorted(a) != sorted(b) or any(a[k] is None or b[k] is None or not torch.equal(a[k], b[k]) for k in a):
                run.violation({"kind": "fixed_seed_two_runs_differ", "tool": "torch", "pre": pre_cfg, "post": post_cfg})
            # the library pipeline on the same inputs
            comp = alias.alias_factory_subclass_from_arg(compute.FrameComputer, json.loads(json.dumps(COMPUTER))) if with_comp else None
            pres = [alias.alias_factory_subclass_from_arg(pre.PreProcessor, fresh(c)) for c in pre_cfg]
            posts = [alias.alias_factory_subclass_from_arg(post.PostProcessor, fresh(c)) for c in post_cfg]
            for idx, (uid, p, cont, x) in enumerate(chosen):
                sig = util.read_signal(p, dtype=np.float64) if cont != "multi" else x.astype(np.float64)  # (its own entry of the archive)
                if sig.ndim != 1:
                    sig = sig[channel]
                for q in pres:
                    if isinstance(q, pre.Dither):  # the tool's dither is torch's, seeded per utterance
                        torch.manual_seed(seed + idx)
                        sig = pt.PyTorchDither.from_dither(q)(torch.from_numpy(sig)).numpy()
                    else:
                        sig = q.apply(sig)
                if comp is not None:
                    # (a computer of its own for every utterance: what one utterance leaves behind is nobody else's business)
                    comp = alias.alias_factory_subclass_from_arg(compute.FrameComputer, json.loads(json.dumps(COMPUTER)))
                f = comp.compute_full(sig) if comp is not None else sig[:, None]
                for q in posts:
                    f = q.apply(f)
                f = f.astype(np.float32)
                got = a.get(uid)
                if got is None:
                    run.violation({"kind": "utterance_missing_from_output", "tool": "torch", "utt": uid, "pre": pre_cfg, "post": post_cfg})
                    continue
                g = got.numpy()
                if g.dtype != np.float32 or g.shape != f.shape or not np.allclose(g, f, rtol=2e-4, atol=2e-4):
                    run.violation({"kind": "torch_stored_features_differ_from_library_pipeline", "utt": uid, "container": cont, "pre": pre_cfg,
                                   "post": post_cfg, "syntax": syntax, "channel": channel, "computer": with_comp,
                                   "stored_shape": list(g.shape), "library_shape": list(f.shape)})
            # a resumed run (the manifest already lists the first two utterances) stores, for the others, what the
            # complete run stored: a fixed --seed fixes the output of every run
            if pi == 2 and channel == -1 and with_comp and len(chosen) > 3:
                out = os.path.join(d, "out_%d_%d_%s_resumed" % (pi, qi, syntax))
                man = out + ".manifest"
                with open(man, "w") as f:
                    f.write("".join("%s\n" % s_[0] for s_ in chosen[:2]))
                args = [mp, config_arg(COMPUTER, syntax, d, "comp"), out, "--seed=%d" % seed, "--num-workers=0", "--manifest=" + man,
                        "--preprocess=" + config_arg(pre_cfg, syntax, d, "pre")]
                if post_cfg:
                    args.append("--postprocess=" + config_arg(post_cfg, syntax, d, "post"))
                pid, st = run_forked(args, os.path.join(d, "trace_resumed.ndjson"))
                run.evaluations += 1
                if not (os.WIFEXITED(st) and os.WEXITSTATUS(st) == 0):
                    run.violation({"kind": "torch_tool_failed", "status": st, "pre": pre_cfg, "post": post_cfg, "what": "resumed run"})
                else:
                    for s_ in chosen[2:]:
                        t = c10.load_tensor(os.path.join(out, s_[0] + ".pt"))
                        if t is None or s_[0] not in a or not torch.equal(t, a[s_[0]]):
                            run.violation({"kind": "fixed_seed_two_runs_differ", "tool": "torch", "utt": s_[0], "pre": pre_cfg, "post": post_cfg,
                                           "what": "a run resumed from a manifest listing %s against a complete run" % [q[0] for q in chosen[:2]]})
                            break
            key = (pi, qi, channel, with_comp)
            if key in firsts:
                other = firsts[key]
                if sorted(other) != sorted(a) or any(not torch.equal(other[k], a[k]) for k in a):
                    run.violation({"kind": "config_syntax_changes_features", "tool": "torch", "syntax": syntax, "pre": pre_cfg, "post": post_cfg})
            else:
                firsts[key] = a
            tid += 1
            traces.append({"tid": tid, "tool": "torch", "pre": [opname(c) for c in pre_cfg], "post": [opname(c) for c in post_cfg],
                           "computer": with_comp, "empty_skips_post": False, "write_event": True, "output": sorted(a),
                           "utts": [{"id": s[0], "excluded": s not in chosen, "empty": len(s[3]) < 81, "events": per.get(s[0], [])} for s in spec],
                           "config": {"syntax": syntax, "channel": channel, "workers": workers}})


def run_forked(args, trace):
    sys.stdout.flush()
    pid = os.fork()
    if pid == 0:
        code = 99
        try:
            os.environ["PYDROBERT_SPEECH_VERIF"] = "1"
            os.environ["PYDROBERT_SPEECH_VERIF_TRACE"] = trace
            os.environ.pop("PYDROBERT_SPEECH_VERIF_CRASH", None)
            devnull = os.open(os.devnull, os.O_WRONLY)
            os.dup2(devnull, 2)
            from pydrobert.speech import _verif
            _verif._seq = 0
            from pydrobert.speech import command_line as cl
            code = cl.signals_to_torch_feat_dir(args) or 0
        except BaseException:
            code = 98
        finally:
            os._exit(code)
    _, st = os.waitpid(pid, 0)
    return pid, st


def force_as_run(run, rng, root):
    """--force-as: files whose suffix says nothing (.dat) read with the named reader, for every utterance of the run."""
    import torch
    nprng = np.random.RandomState(rng.randint(0, 2 ** 31 - 1))
    for kind in ("npy", "sph", "wav"):
        d = os.path.join(root, "force_" + kind)
        os.makedirs(d)
        sigs, lines = {}, []
        for k, n in enumerate((900, 1300, 705)):
            uid = "f%d" % k
            x = nprng.randint(-3000, 3000, size=n).astype(np.int16)
            p = os.path.join(d, uid + ".dat")
            if kind == "npy":
                with open(p, "wb") as f:
                    np.save(f, x.astype(np.float32))
            elif kind == "sph":
                open(p, "wb").write(sph_util.pcm_file(x))
            else:
                write_wav(p + ".wav", x)
                os.rename(p + ".wav", p)
            sigs[uid] = x.astype(np.float64)
            lines.append("%s %s" % (uid, p))
        mp = os.path.join(d, "map")
        open(mp, "w").write("\n".join(lines) + "\n")
        out = os.path.join(d, "out")
        pid, st = run_forked([mp, config_arg(COMPUTER, "inline", d, "comp"), out, "--force-as=" + kind, "--num-workers=0"],
                             os.path.join(d, "trace.ndjson"))
        run.evaluations += 1
        if not (os.WIFEXITED(st) and os.WEXITSTATUS(st) == 0):
            run.violation({"kind": "torch_tool_failed", "status": st, "what": "--force-as=%s on .dat files" % kind})
            continue
        comp = alias.alias_factory_subclass_from_arg(compute.FrameComputer, json.loads(json.dumps(COMPUTER)))
        for uid, x in sigs.items():
            t = c10.load_tensor(os.path.join(out, uid + ".pt"))
            f = comp.compute_full(x).astype(np.float32)
            if t is None or tuple(t.shape) != f.shape or not np.allclose(t.numpy(), f, rtol=2e-4, atol=2e-4):
                run.violation({"kind": "torch_stored_features_differ_from_library_pipeline", "utt": uid, "container": kind + " behind --force-as",
                               "stored_shape": None if t is None else list(t.shape), "library_shape": list(f.shape)})


def repository_tests(run, traces):
    """The repository's own tests/test_command_line.py run with the hooks on.  Every tool run they make logs the
    pipeline it was asked for (`config` event: pre-/post-processor classes, computer or raw column); the stage events
    of every utterance of that run (from whichever process) must then follow Pipeline for that configuration."""
    import repo_tests
    rc, tail, events = repo_tests.record(("tests/test_command_line.py",))
    if rc not in (0, 1) or not events:
        raise common.MachineryError("could not trace tests/test_command_line.py (rc=%s): %s" % (rc, tail))
    runs, cur = [], None
    for e in events:  # file order is the global order: every event is one atomic append
        if e["event"] == "config":
            cur = {"tool": e["tool"], "pre": [p.replace("PyTorch", "") for p in e["pre"]], "post": e["post"],
                   "computer": e["computer"], "utts": {}}
            runs.append(cur)
            continue
        if cur is None or "utt" not in e or e["event"] in ("save_begin", "manifest_print", "crash"):
            continue
        name = e["event"]
        if name in ("pre", "post"):
            name = name + ":" + e["op"].replace("PyTorch", "")
        if name == "save_end":
            name = "write"
        u = cur["utts"].setdefault(e["utt"], {"events": [], "frames": None})
        u["events"].append(name)
        if e["event"] == "compute":
            u["frames"] = e.get("frames")
    tid = len(traces)
    added = 0
    for r in runs:
        if not r["utts"]:
            continue
        tid += 1
        added += 1
        utts = [{"id": uid, "excluded": False, "empty": u["frames"] == 0, "events": u["events"]} for uid, u in sorted(r["utts"].items())]
        traces.append({"tid": tid, "tool": r["tool"], "pre": r["pre"], "post": r["post"], "computer": r["computer"],
                       "empty_skips_post": r["tool"] == "kaldi", "write_event": True, "output": [u["id"] for u in utts],
                       "utts": utts, "config": {"source": "tests/test_command_line.py"}})
    run.extra["repository_test_tool_runs"] = added
    if added == 0:
        raise common.MachineryError("no tool run of tests/test_command_line.py was traced")


def run(tier, seed):
    run = common.Run("C09", tier, seed)
    rng = random.Random(seed)
    r = common.tlc("MC_Pipeline", "Pipeline_apply.cfg", timeout=300, workers=4)
    if r.violated:
        run.violation({"kind": "model_" + r.violated, "module": "Pipeline", "detail": r.errtext[-2000:]})
    run.add_tlc("Pipeline", r)
    rc = common.tlc("MC_Pipeline", "Pipeline_ignore.cfg", timeout=300, workers=4)
    if rc.violated != "C09_StagesInOrder":
        raise common.MachineryError("canary: ignoring the post-processors was not refuted")
    run.extra.setdefault("canaries", []).append({"module": "Pipeline", "variant": "PostRule=ignore", "refuted_by": rc.violated})
    import torch  # noqa
    root = tempfile.mkdtemp(prefix="verif_c09_")
    traces = []
    try:
        kaldi_runs(run, tier, rng, root, traces)
        torch_runs(run, tier, rng, root, traces)
        # other computers (complex wrapping banks, odd frame length with a padded DFT, kaldi shift, short integration)
        # and --seed=0, which is as fixed as any other seed
        for k, comp in enumerate(COMPUTERS2):
            torch_runs(run, tier, rng, root, traces, computer=comp, seed=0, combos=[(2, 0, "inline"), (0, 1, "yaml")], tag=str(k))
        force_as_run(run, rng, root)
        repository_tests(run, traces)
    finally:
        shutil.rmtree(root, ignore_errors=True)
    rejected, tr = common.validate_traces_parallel("TracePipeline", "TracePipeline.cfg", traces, shards=4)
    run.traces += len(traces)
    run.states += tr.distinct
    run.transitions += tr.generated
    byid = {t["tid"]: t for t in traces}
    for (tid, line, clause) in rejected:
        t = byid[tid]
        run.violation({"kind": "%s_tool_%s" % (t["tool"], clause), "utt": t["utts"][line - 1], "pre": t["pre"], "post": t["post"],
                       "config": t["config"], "output_ids": t["output"]})
    run.sample(traces[0])
    run.sample(traces[-1])
    run.extra["tool_runs"] = len(traces)
    if not rejected:
        victim = next(t for t in traces if any(len(u["events"]) > 2 for u in t["utts"]))

        def corrupt(t):
            u = next(u for u in t["utts"] if len(u["events"]) > 2)
            u["events"][1], u["events"][2] = u["events"][2], u["events"][1]
        common.assert_binding_live(run, "TracePipeline", "TracePipeline.cfg", victim, corrupt, "two stage events of one utterance swapped")
    run.extra["rule"] = "pre in {none, [preemph], [dither, preemph]} x post in {none, [deltas], [stack, deltas]} x {inline JSON, JSON file, YAML file} x channel / raw-column / worker variants; 8 utterances per run incl. too short, one frame, two frames, stereo, wrong rate; wav / npy / pt / sph containers"
    return run.finish()


def replay(path):
    print(json.dumps(json.load(open(path)), indent=1)[:3000])
    return 0
