"""Record executions of the real STFTFrameComputer as traces for TraceStftDef /
TraceStftImpl, and enumerate the histories to record."""
import itertools

import numpy as np

import stubs
from pydrobert.speech.compute import frame_by_frame_calculation

TOKBASE = 1000
_LAYOUT_TICK = 0
OFFS = 0.25  # sample value of token t is t + 0.25: junk memory is very unlikely to decode


def signal(u, start, n, dtype=np.float64):
    return (np.arange(start, start + n, dtype=np.float64) + u * TOKBASE + OFFS).astype(dtype)


def decode(frame):
    out = []
    for v in frame:
        t = v - OFFS
        if np.isfinite(t) and t == np.floor(t) and 0 <= t < 100 * TOKBASE:
            out.append(int(t))
        else:
            out.append(-1)
    return out


def compositions(n):
    if n == 0:
        yield []
        return
    for bits in itertools.product((0, 1), repeat=n - 1):
        c, cur = [], 1
        for b in bits:
            if b:
                c.append(cur)
                cur = 1
            else:
                cur += 1
        c.append(cur)
        yield c


class Recorder:
    """Drives one real computer through a history; produces the event list and
    the feature values returned by each call."""

    def __init__(self, computer, readonly=True):
        self.c = computer
        self.tap = stubs.FrameTap(computer)
        self.utt = 0
        self.inprog = False
        self.fed = 0
        self.events = []
        self.values = []
        self.readonly = readonly
        self.input_modified = False

    def _priv(self):
        import common
        return common.stft_priv(self.c)

    def _arr(self, u, start, n):
        # the samples arrive in varying memory layouts (strided views, byte-swapped, ...): same values, same frames
        import common
        global _LAYOUT_TICK
        _LAYOUT_TICK += 1  # (a running counter: every configuration / call kind / length meets every layout)
        x = common.relayout(signal(u, start, n), common.LAYOUTS[_LAYOUT_TICK % len(common.LAYOUTS)])
        if self.readonly:
            x.flags.writeable = False
        return x

    def run(self, op):
        c = self.c
        kind = op[0]
        ev = {"a": kind, "err": False}
        vals = None
        if kind in ("chunk", "chunk32"):
            n = op[1]
            u = self.utt if self.inprog else self.utt + 1
            start = self.fed if self.inprog else 0
            x = self._arr(u, start, n)
            if kind == "chunk32":  # the tokens are exactly representable in single precision
                x = x.astype(np.float32)
                x.flags.writeable = not self.readonly
                ev["a"] = "chunk"
            keep = x.copy()
            ev["c"] = n
            try:
                vals = c.compute_chunk(x)
            except ValueError:
                ev["err"] = True
            if not np.array_equal(x, keep):
                self.input_modified = True
            if not ev["err"]:
                self.utt, self.fed, self.inprog = u, start + n, True
        elif kind == "finalize":
            try:
                vals = c.finalize()
            except ValueError:
                ev["err"] = True
            if not ev["err"]:
                if not self.inprog:
                    self.utt += 1
                    self.fed = 0
                self.inprog = False
        elif kind in ("full", "fbf"):
            n = op[1]
            u = self.utt + 1 if not self.inprog else 90
            x = self._arr(u, 0, n)
            keep = x.copy()
            ev["n"] = n
            try:
                if kind == "full":
                    vals = c.compute_full(x)
                else:
                    ev["cs"] = op[2]
                    vals = frame_by_frame_calculation(c, x, op[2])
            except ValueError:
                ev["err"] = True
            if not np.array_equal(x, keep):
                self.input_modified = True
            if not ev["err"] and not self.inprog:
                self.utt, self.fed = u, n
        else:
            raise ValueError(kind)
        frames = self.tap.take()
        ev["fr"] = [decode(f) for f in frames]
        ev["st"] = bool(c.started)
        ev["p"] = self._priv()
        ev["nret"] = -1 if vals is None else int(vals.shape[0])
        self.events.append(ev)
        self.values.append(vals)
        return ev, vals


def history_for_composition(comp, empties=()):
    """chunk ops for a composition, with zero-length chunks inserted before the
    positions listed in `empties`, then finalize."""
    ops = []
    for i, c in enumerate(comp):
        if i in empties:
            ops.append(("chunk", 0))
        ops.append(("chunk", c))
    if len(comp) in empties:
        ops.append(("chunk", 0))
    ops.append(("finalize",))
    return ops
