"""C02  STFT coefficients equal their documented definition.

S  TLC: StftStream (compute_full's framing = FrameDef, frame count), SpectrumWalk
   (every (D, start, len): the half-spectrum walk pairs each tap with the bin the
   documented Recipe names; terminates), BinCover lemma.
B  (i)  code -> spec: compute_full of the real computer for every N <= 3L+3 and
        every tiny configuration, recorded with token frames, validated by
        TraceStftDef (clauses C02_FullIsDefinition, C02_FrameCount);
   (ii) spec -> code: for every (D, start, len) the spec exports, a one-hot-free
        random complex truncated response is run through the real compute_full
        and compared with the full-spectrum definition using the exported bins;
   (iii) value level: real banks x scales x styles x windows x options, frames
        taken from the TLC-exported FrameDef table, H_i rebuilt from
        get_truncated_response by the documented recipe;
   (iv) default frame length: every filter keeps a non-zero tap.
"""
import random

import numpy as np

import common
import stubs
import stft_trace as T
import stft_val as V
import c01
from pydrobert.speech import compute, filters


def walk_model_check(run, tier):
    r = common.tlc("MC_SpectrumWalk", "SpectrumWalk_%s.cfg" % tier, timeout=3000)
    if r.violated:
        run.violation({"kind": "model_" + r.violated, "module": "SpectrumWalk", "detail": r.errtext[-3000:]})
    run.add_tlc("SpectrumWalk", r)
    r = common.tlc("MC_SpectrumWalk", "SpectrumWalk_canary.cfg", workers=4, timeout=600)
    if r.violated != "C02_WalkPairsEqualRecipe":
        raise common.MachineryError("canary: SpectrumWalk with the pre-repair parity was not refuted (%r)" % r.violated)
    run.extra.setdefault("canaries", []).append({"module": "SpectrumWalk", "variant": "ParityOf=half_len", "refuted_by": r.violated})


def walk_probe(run, tier, nprng, torch_too=False, prop="C02"):
    """spec -> code: every exported (D, start) row, all lengths 1..D."""
    walk = V.export_walk(tier)
    maxd = 16 if tier == "quick" else 40
    nbad = 0
    if torch_too:
        import torch
        from pydrobert.speech.torch import PyTorchSTFTFrameComputer
    for (D, start), row in sorted(walk.items()):
        if D > maxd:
            continue
        if tier == "thorough" and D > 24 and (start % 3) and start not in (D - 1, D // 2, D // 2 + 1):
            continue
        specs = []
        for tlen in range(1, D + 1):
            specs.append((start, nprng.randn(tlen) + 1j * nprng.randn(tlen)))
        # a response with no bin at all, and one whose only bins are zero: the definition gives 0 (the floor, in log)
        if not torch_too:  # (the torch module documents that it refuses a bank with an empty filter)
            specs.append((start, np.zeros(0, dtype=np.complex128)))
        specs.append((start, np.zeros(1, dtype=np.complex128)))
        bank = stubs.OneHotBank(specs, D, real=False)
        x = nprng.randn(D)
        for power, log in ((False, False), (True, False), (bool(start & 1), True)):
            c = stubs.make_stft(D, D, "causal", bank=bank, window=stubs.Ramp(), use_log=log, use_power=power)
            got = c.compute_full(x)
            outs = [("numpy", got)]
            if torch_too:
                tc = PyTorchSTFTFrameComputer.from_stft_frame_computer(c, filter_type=torch.cdouble, window_type=torch.double)
                outs.append(("torch", tc(stubs.torch_layout(x)).detach().numpy()))
            exp = V.features(x, stubs.Ramp().get_impulse_response(D), D, specs, False, power, log, False, walk)
            # machinery self-check: the spec's half-spectrum pairs give the same number as its full-spectrum bins
            Xh = np.fft.rfft(x * stubs.Ramp().get_impulse_response(D), D)
            for i, (s, t) in enumerate(specs):
                a = np.abs(Xh[row["pairs"][:len(t)]] * t)
                viaPairs = np.sum(a * a) if power else np.sum(a)
                if log:
                    viaPairs = np.log(max(viaPairs, V.pconfig.LOG_FLOOR_VALUE))
                if not np.isclose(viaPairs, exp[i], rtol=1e-9):
                    raise common.MachineryError("spec self-check failed: Pair and FullBin disagree for D=%d start=%d len=%d" % (D, s, len(t)))
            if prop == "C14":
                # C14's own observable: the torch module against compute_full (not against the definition)
                outs = [("torch_vs_numpy", outs[1][1])]
                exp = got[0] if got.shape == (1, len(specs)) else exp
            for name, g in outs:
                run.evaluations += len(specs)
                if g.shape != (1, len(specs)):
                    run.violation({"kind": "walk_probe_shape_" + name, "D": D, "start": start, "shape": list(g.shape)})
                    continue
                ok = np.isclose(g[0], exp, rtol=1e-8, atol=1e-10)
                if not ok.all():
                    i = int(np.argwhere(~ok)[0][0])
                    nbad += 1
                    run.violation({"kind": "walk_pairs_tap_with_wrong_bin_" + name, "impl": name, "D": D, "start": start, "tlen": len(specs[i][1]),
                                   "power": power, "log": log, "got": float(g[0, i]), "definition": float(exp[i]),
                                   "n_wrong_lengths": int((~ok).sum()),
                                   "spec_pairs": row["pairs"][: i + 1]})
    run.sample({"walk_row": walk[(8, 6)] if (8, 6) in walk else next(iter(walk.values()))})
    return walk


def full_traces(run, tier):
    """code -> spec: compute_full for every N, every tiny configuration."""
    traces, meta, tid = [], {}, 0
    for (L, S, st) in c01.stft_configs(tier) + c01.gapped_configs(tier):
        c = stubs.make_stft(L, S, st)
        rec = T.Recorder(c)
        Ns = list(range(0, 3 * max(L, S) + 4))
        for N in Ns:
            rec.run(("full", N))
            run.evaluations += 1
        tid += 1
        traces.append({"tid": tid, "cfg": {"L": L, "S": S, "st": stubs.spec_style(st)},
                       "events": [{k: e[k] for k in ("a", "err", "fr", "st", "n")} for e in rec.events]})
        meta[tid] = (L, S, st)
    rejected, tr = common.validate_traces_parallel("TraceStftDef", "TraceStftDef.cfg", traces, shards=8)
    run.traces += len(traces)
    run.states += tr.distinct
    run.transitions += tr.generated
    for (tid_, line, clause) in rejected:
        L, S, st = meta[tid_]
        t = next(t for t in traces if t["tid"] == tid_)
        run.violation({"kind": "full_trace_rejected_" + clause, "L": L, "S": S, "style": st, "N": t["events"][line - 1].get("n"),
                       "clause": clause, "event": t["events"][line - 1]})
    run.sample(traces[len(traces) // 2])


def bank_matrix(tier, rate):
    out = []
    scales = ["mel", "bark", {"name": "linear", "low_hz": 0.0}, {"name": "octave", "low_hz": 20.0}]
    for sc in scales:
        out.append(("tri", lambda sc=sc, a=False: filters.TriangularOverlappingFilterBank(sc, num_filts=3, sampling_rate=rate, analytic=a)))
        out.append(("tri_analytic", lambda sc=sc: filters.TriangularOverlappingFilterBank(sc, num_filts=3, sampling_rate=rate, analytic=True)))
        out.append(("gabor", lambda sc=sc: filters.GaborFilterBank(sc, num_filts=3, sampling_rate=rate)))
        out.append(("gammatone", lambda sc=sc: filters.ComplexGammatoneFilterBank(sc, num_filts=3, sampling_rate=rate)))
    out.append(("fbank", lambda: filters.Fbank(num_filts=3, sampling_rate=rate)))
    out.append(("fbank_analytic", lambda: filters.Fbank(num_filts=3, sampling_rate=rate, analytic=True)))
    out.append(("gabor_erb_wide", lambda: filters.GaborFilterBank("mel", num_filts=2, sampling_rate=rate, low_hz=0.0, erb=True)))
    # complex banks that call themselves analytic (no filter reaches below 0 Hz) and whose top filters run past Nyquist:
    # the sum is still over the FULL spectrum
    for sc in ("mel", "bark"):
        out.append(("gabor_analytic_past_nyquist", lambda sc=sc: filters.GaborFilterBank(
            sc, num_filts=3 if rate <= 1000 else 10, sampling_rate=rate, low_hz=0.2 * rate, high_hz=rate / 2)))
    return out


def value_level(run, tier, nprng, walk, torch_too=False, prop="C02"):
    """Real banks; frames from the spec; H_i from get_truncated_response via the recipe."""
    if torch_too:
        import torch
        from pydrobert.speech.torch import PyTorchSTFTFrameComputer
    windows = ["hamming", "hann", "bartlett", "blackman", {"name": "gamma", "order": 2}, None]  # None: the documented default
    combos = []
    frames_cases = []
    Lset = [(3, 1), (4, 2), (5, 5), (6, 4), (7, 3), (8, 1), (4, 9), (5, 7)] if tier == "quick" else \
        [(L, S) for L in range(2, 11) for S in sorted({1, 2, (L + 1) // 2, L, L + 2, 2 * L + 1})]
    for rate, LS in ((stubs.RATE, Lset), (8000, [(200, 80), (201, 67)]), (16000, [(400, 160)] if tier == "quick" else [(400, 160), (320, 161)])):
        banks = bank_matrix(tier, rate)
        for bi, (bname, mk) in enumerate(banks):
            for (L, S) in LS:
                for st in stubs.ALL_STYLES:
                    for pad in (False, True):
                        if tier == "quick" and (bi + L + len(st) + pad) % 3:
                            continue  # quick: a third of the matrix, deterministic
                        combos.append((rate, bname, mk, L, S, st, pad))
    # explicit frames so short that some mel filters have no DFT bin at all: those coefficients are 0 (the floor, in log)
    for (L, S) in ((80, 40), (128, 64)):
        for st in ("centered", "causal"):
            for pad in (False, True):
                combos.append((16000, "fbank40_short", lambda: filters.Fbank(num_filts=40, sampling_rate=16000), L, S, st, pad))
    # banks whose truncated responses BEGIN with a weight of exactly zero (a triangle's foot on a DFT bin: 500 Hz vertices on a
    # 256-point DFT at 8 kHz; any bank starting at 0 Hz): the stored response is used as handed over, zeros and all
    for st in ("centered", "causal"):
        for pad in (False, True):
            combos.append((8000, "tri_linear_vertices_on_bins", lambda: filters.TriangularOverlappingFilterBank(
                {"name": "linear", "low_hz": 0.0}, num_filts=7, sampling_rate=8000, low_hz=0.0, high_hz=4000.0), 200, 80, st, pad))
            combos.append((8000, "tri_mel_from_0hz", lambda: filters.TriangularOverlappingFilterBank(
                "mel", num_filts=4, sampling_rate=8000, low_hz=0.0), 201, 67, st, pad))
            combos.append((8000, "fbank_analytic_from_0hz", lambda: filters.Fbank(num_filts=4, sampling_rate=8000, low_hz=0.0, analytic=True),
                           200, 80, st, pad))
    run.extra["value_level_configs"] = len(combos)
    # all frames needed, exported by TLC in one go
    plan = []
    for (rate, bname, mk, L, S, st, pad) in combos:
        Ns = sorted({L // 2 + 1, L, L + S, 2 * L + 1, 3 * L + 3 if rate == stubs.RATE else 2 * L + S + 3, L // 2, 2 * S + L})
        for N in Ns:
            plan.append((rate, bname, mk, L, S, st, pad, N))
            frames_cases.append({"L": L, "S": S, "st": stubs.spec_style(st), "N": N})
    uniq = {}
    for cse in frames_cases:
        uniq[(cse["L"], cse["S"], cse["st"], cse["N"])] = cse
    rows = V.export_frames(list(uniq.values()))
    rowidx = {(r["L"], r["S"], r["st"], r["N"]): r for r in rows}
    breaches = []
    k = 0
    compared = 0
    for (rate, bname, mk, L, S, st, pad, N) in plan:
        k += 1
        try:
            bank = mk()
        except Exception as e:  # a bank the library refuses to build is not C02's business
            breaches.append({"bank": bname, "rate": rate, "why": "constructor: %r" % (e,)})
            continue
        win = windows[k % len(windows)]
        log, power, energy = bool(k & 1), bool(k & 2), bool(k & 4)
        if bname.endswith("_short"):
            log = True
        ms = 1000.0 / rate
        c = compute.STFTFrameComputer(bank, frame_length_ms=L * ms + ms / 4, frame_shift_ms=S * ms + ms / 4,
                                      frame_style="causal" if st in ("causal", "causal+k") else "centered", kaldi_shift=(st in ("kaldi", "causal+k")),
                                      pad_to_nearest_power_of_two=pad, window_function=win,
                                      use_log=log, use_power=power, include_energy=energy)
        if (c.frame_length, c.frame_shift) != (L, S):
            raise common.MachineryError("size assumption broken: wanted %s got %s" % ((L, S), (c.frame_length, c.frame_shift)))
        D = int(2 ** np.ceil(np.log2(L))) if pad else L
        if win is None:  # Gamma for causal frames, Hann otherwise - decided by the frame style alone
            wf = filters.GammaWindow() if st in ("causal", "causal+k") else filters.HannWindow()
        else:
            wf = filters.WindowFunction.from_alias(win) if isinstance(win, str) else filters.GammaWindow(order=2)
        window = wf.get_impulse_response(L)
        filts, ok = [], True
        for i in range(bank.num_filts):
            s, t = bank.get_truncated_response(i, D)
            good, why = V.contract_ok(D, s, t, bank.is_real)
            if not good:
                breaches.append({"bank": bname, "rate": rate, "D": D, "filter": i, "why": why})
                ok = False
            filts.append((int(s), np.array(t)))
        if not ok:
            continue
        compared += 1
        x = nprng.randn(N) * (3.0, 0.01, 1e-4, 0.0, 1e-7)[(k // 8) % 5]  # loud, quiet, below the log floor, digital silence
        row = rowidx[(L, S, stubs.spec_style(st), N)]
        exp, borderline = V.expected_matrix(x, row, window, D, filts, bank.is_real, power, log, energy, walk)
        outs = [("numpy", c.compute_full(x))]
        if torch_too and (N >= L or N < L // 2 + 1):  # C14 is stated for N >= frame_length and for N < frame_length//2+1
            tc = PyTorchSTFTFrameComputer.from_stft_frame_computer(c, filter_type=torch.cdouble, window_type=torch.double)
            outs.append(("torch", tc(stubs.torch_layout(x)).detach().numpy()))
        if prop == "C14":
            if len(outs) < 2:
                continue
            exp = outs[0][1]  # C14's own observable: torch against compute_full
            # (no blanket excuse for values at the floor: a coefficient numpy floors must be floored by torch as well;
            # `borderline` already marks the cells whose pre-log value is within round-off of the floor)
            outs = [("torch_vs_numpy", outs[1][1])]
        for name, got in outs:
            run.evaluations += 1
            what = None
            if got.shape != exp.shape:
                what = "shape %s, definition %s" % (got.shape, exp.shape)
            else:
                okm = np.isclose(got, exp, rtol=1e-7, atol=1e-10) | borderline
                if not okm.all():
                    kk, ii = np.argwhere(~okm)[0]
                    what = "frame %d coeff %d: got %r, definition %r" % (kk, ii, float(got[kk, ii]), float(exp[kk, ii]))
            if what:
                run.violation({"kind": "stft_values_differ_from_definition_" + name, "impl": name, "bank": bname, "rate": rate,
                               "L": L, "S": S, "style": st, "pad": pad, "D": D, "N": N, "window": str(win),
                               "use_log": log, "use_power": power, "include_energy": energy, "what": what})
        if k % 97 == 0:
            run.sample({"value_case": {"bank": bname, "rate": rate, "L": L, "S": S, "style": st, "pad": pad, "N": N,
                                       "window": str(win), "log": log, "power": power, "energy": energy}})
    hist = {}
    for b in breaches:
        key = "%s@%s: %s" % (b["bank"], b["rate"], b["why"][:60])
        hist[key] = hist.get(key, 0) + 1
    run.extra["contract_breaches"] = hist
    run.extra["contract_breach_count"] = len(breaches)
    run.extra["value_level_cases_compared"] = compared
    if compared < len(plan) // 2:
        raise common.MachineryError("value level: only %d of %d planned cases were inside the bank contract" % (compared, len(plan)))


def responses_at_documented_size(bank, frame_length, pad):
    """the bank's truncated responses at the DFT size the documentation gives for this frame length (public API only)"""
    D = int(2 ** np.ceil(np.log2(frame_length))) if pad else frame_length
    return [np.asarray(bank.get_truncated_response(i, D)[1]) for i in range(bank.num_filts)]


def default_frame_length(run, tier):
    """With the default frame length every filter keeps at least one non-zero DFT bin."""
    n = 0
    for rate in (8000, 16000, 44100) if tier == "thorough" else (8000, 16000):
        for nf in (5, 23, 40) if tier == "thorough" else (5, 40):
            for (bname, mk) in [
                ("tri_mel", lambda: filters.TriangularOverlappingFilterBank("mel", num_filts=nf, sampling_rate=rate)),
                ("tri_bark", lambda: filters.TriangularOverlappingFilterBank("bark", num_filts=nf, sampling_rate=rate)),
                ("fbank", lambda: filters.Fbank(num_filts=nf, sampling_rate=rate)),
                ("gabor_mel", lambda: filters.GaborFilterBank("mel", num_filts=nf, sampling_rate=rate)),
                ("gammatone_mel", lambda: filters.ComplexGammatoneFilterBank("mel", num_filts=nf, sampling_rate=rate)),
            ]:
                for pad in (True, False):
                    bank = mk()
                    c = compute.STFTFrameComputer(bank, pad_to_nearest_power_of_two=pad)
                    n += 1
                    run.evaluations += 1
                    for i, t in enumerate(responses_at_documented_size(bank, c.frame_length, pad)):
                        if not np.any(np.abs(t) > 0):
                            run.violation({"kind": "default_frame_length_filter_all_zero", "bank": bname, "rate": rate,
                                           "num_filts": nf, "pad": pad, "filter": i, "frame_length": c.frame_length})
    # dense banks with very narrow low filters: here the bandwidth bound (DFT bins no further apart than half the
    # narrowest filter), not the temporal support, decides the default frame length
    from pydrobert.speech import scales
    for rate in (8000, 16000):
        for low in (20.0, 50.0, 100.0):
            for nf in (80, 160, 300) if tier == "thorough" else (80, 160):
                for pad in (True, False):
                    bank = filters.TriangularOverlappingFilterBank(scales.OctaveScaling(low), num_filts=nf, sampling_rate=rate, low_hz=low)
                    c = compute.STFTFrameComputer(bank, pad_to_nearest_power_of_two=pad)
                    n += 1
                    run.evaluations += 1
                    for i, t in enumerate(responses_at_documented_size(bank, c.frame_length, pad)):
                        if not np.any(np.abs(t) > 0):
                            run.violation({"kind": "default_frame_length_filter_all_zero", "bank": "tri_octave", "rate": rate, "low_hz": low,
                                           "num_filts": nf, "pad": pad, "filter": i, "frame_length": c.frame_length})
    return n


def run(tier, seed):
    run = common.Run("C02", tier, seed)
    rng = random.Random(seed)
    nprng = np.random.RandomState(seed)
    c01.stft_model_check(run, tier)
    walk_model_check(run, tier)
    walk = walk_probe(run, tier, nprng)
    full_traces(run, tier)
    value_level(run, tier, nprng, walk)
    default_frame_length(run, tier)
    run.assumptions += ["C02 is relative to get_truncated_response: the bank contract the recipe needs is monitored "
                        "(start in [0,D), len <= D, real banks inside the half spectrum, no non-zero tap on a self-conjugate bin); "
                        "breaches are listed, neither violations nor passes",
                        "numpy.fft.fft is the DFT"]
    run.extra["rule"] = "every (D,start,len) exported by SpectrumWalkTable; compute_full for every N<=3L+3 per tiny configuration; real-bank option matrix"
    return run.finish()


def replay(path):
    import json
    print(json.dumps(json.load(open(path)), indent=1)[:4000])
    return 0
