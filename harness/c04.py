"""C04  A computer's output depends only on the current utterance.

S  TLC: C04_* invariants / action properties of StftStream and SiStream over
   multi-utterance histories mixing compute_chunk, finalize (repeated),
   compute_full, frame_by_frame_calculation, empty chunks, too-short utterances.
B  Histories - not just transitions - are replayed on ONE real instance:
   every history of depth <= 3 over a reduced alphabet plus random histories of
   depth 12.  code -> spec: every call is recorded (token frames, started,
   ValueError) and validated by TraceStftDef / TraceSi; then a probe utterance
   is computed on the used instance and on a FRESH instance and compared
   bitwise; inputs are read-only and checksummed.
"""
import itertools
import random
import warnings

import numpy as np

import common
import stubs
import stft_trace as T
import c01
import si_model
import gen_mc


def alphabet(L, S):
    return [("chunk", 0), ("chunk", 1), ("chunk", max(1, L // 2)), ("chunk", L - 1), ("chunk", L), ("chunk", L + S),
            ("finalize",), ("full", L // 2), ("full", 2 * L), ("fbf", 2 * L, 3), ("chunk32", L + S)]


def probe_ops(L, S):
    return [("chunk", 1), ("chunk", L), ("chunk", 0), ("chunk", L + S - 1), ("finalize",)]


def refused_calls_leave_no_trace(run, cfgs, nprng):
    """A compute_full / frame_by_frame_calculation refused mid-utterance (whatever the dtype or length of the signal it was
    offered) leaves the utterance in progress exactly as it was: what follows is, array for array (values and dtype),
    what an undisturbed instance returns.  STFT and short-integration."""
    from pydrobert.speech.compute import frame_by_frame_calculation
    import gen_mc
    import si_model
    makers = [("stft", (L, S, st), (lambda L=L, S=S, st=st: stubs.make_stft(L, S, st)), L, S) for (L, S, st) in cfgs]
    for c_ in gen_mc.si_configs("quick")[::5]:
        taps = [list(nprng.randint(-3, 4, size=c_["length"]).astype(float) + 0.5)]
        if c_["style"] == "centered":
            taps[0][-1] = 0.0
        makers.append(("si", c_, (lambda c_=c_, taps=taps: si_model.make_si(c_, taps, use_power=True, use_log=False)), c_["D"], c_["S"]))
    # (centered computers that start with samples to skip: a refused call must not consume any of them)
    for (S_, M_) in ((3, 9), (4, 11)):
        L_ = M_ + S_ - 1
        c_ = dict(style="centered", S=S_, M=M_, T=M_ // 2, D=L_, left=-(M_ // 2), length=M_)
        taps = [list(nprng.randint(-3, 4, size=M_).astype(float) + 0.5)]
        taps[0][-1] = 0.0
        makers.append(("si", c_, (lambda c_=c_, taps=taps: si_model.make_si(c_, taps, use_power=True, use_log=False)), c_["D"], c_["S"]))
    for (kind, cfg, mk, L, S) in makers:
        x = nprng.randn(3 * L + S + 2)
        for k1 in (0, 1, L // 2 + 1, L + S):
            for other_dt in (np.float32, np.float64, np.float16):
                used, clean = mk(), mk()
                outs_u, outs_c = [used.compute_chunk(x[:k1])], [clean.compute_chunk(x[:k1])]
                offered = nprng.randn(2 * L + 1).astype(other_dt)
                offered.flags.writeable = False
                for call in ("full", "fbf", "full_empty", "fbf_empty"):
                    sig_ = offered if not call.endswith("_empty") else offered[:0]  # (an empty signal is refused like any other)
                    try:
                        if call.startswith("full"):
                            used.compute_full(sig_)
                        else:
                            frame_by_frame_calculation(used, sig_, 3)
                        run.violation({"kind": kind + "_call_not_refused_mid_utterance", "cfg": cfg, "call": call, "fed": k1})
                    except ValueError:
                        pass
                if not used.started:
                    run.violation({"kind": kind + "_refused_call_ended_the_utterance", "cfg": cfg, "fed": k1})
                outs_u.append(used.compute_chunk(x[k1:k1 + S + 1]))
                outs_c.append(clean.compute_chunk(x[k1:k1 + S + 1]))
                outs_u.append(used.finalize())
                outs_c.append(clean.finalize())
                run.evaluations += 1
                if any(a.dtype != b.dtype or a.shape != b.shape or a.tobytes() != b.tobytes() for a, b in zip(outs_u, outs_c)):
                    run.violation({"kind": kind + "_refused_call_disturbed_the_utterance", "cfg": cfg, "fed": k1, "offered_dtype": str(np.dtype(other_dt)),
                                   "dtypes": [str(a.dtype) for a in outs_u], "undisturbed_dtypes": [str(b.dtype) for b in outs_c]})
                # a chunk of another float type than the utterance's: where the computer refuses it (the short-integration
                # one does, by documented design) the refusal leaves no trace either; where it is accepted there is
                # nothing to compare
                if other_dt != np.float64:
                    used, clean = mk(), mk()
                    outs_u, outs_c = [used.compute_chunk(x[:k1])], [clean.compute_chunk(x[:k1])]
                    try:
                        used.compute_chunk(offered[:3])
                        refused = False
                    except ValueError:
                        refused = True
                    if refused:
                        outs_u += [used.compute_chunk(x[k1:k1 + S + 1]), used.finalize()]
                        outs_c += [clean.compute_chunk(x[k1:k1 + S + 1]), clean.finalize()]
                        if any(a.dtype != b.dtype or a.shape != b.shape or a.tobytes() != b.tobytes() for a, b in zip(outs_u, outs_c)):
                            run.violation({"kind": kind + "_refused_call_disturbed_the_utterance", "cfg": cfg, "fed": k1,
                                           "offered_dtype": str(np.dtype(other_dt)), "what": "a refused chunk of another float type"})
                # ... and directly: refused, then finalize with nothing in between
                used, clean = mk(), mk()
                used.compute_chunk(x[:k1 + S])
                clean.compute_chunk(x[:k1 + S])
                try:
                    used.compute_full(offered)
                except ValueError:
                    pass
                a, b = used.finalize(), clean.finalize()
                if a.dtype != b.dtype or a.shape != b.shape or a.tobytes() != b.tobytes():
                    run.violation({"kind": kind + "_refused_call_disturbed_the_utterance", "cfg": cfg, "fed": k1 + S, "offered_dtype": str(np.dtype(other_dt)),
                                   "what": "finalize directly after the refused call", "dtype": str(a.dtype), "undisturbed_dtype": str(b.dtype)})


def stft_histories(run, tier, rng):
    nprng = np.random.RandomState(rng.randint(0, 2 ** 31 - 1))
    cfgs = c01.stft_configs(tier)
    if tier == "quick":
        cfgs = [c for i, c in enumerate(cfgs) if i % 5 == 0]
    traces, meta, tid = [], {}, 0
    depth = 3
    for (L, S, st) in cfgs:
        alpha = alphabet(L, S)
        hists = [list(h) for d in range(1, depth + 1) for h in itertools.product(alpha, repeat=d)]
        if tier == "quick":
            hists = [h for i, h in enumerate(hists) if i % 3 == 0]
        for _ in range(60 if tier == "quick" else 400):
            hists.append([rng.choice(alpha) for _ in range(12)])
        for hi, h in enumerate(hists):
            c = stubs.make_stft(L, S, st)
            rec = T.Recorder(c)
            for op in h:
                rec.run(op)
            # leave the instance idle, whatever the history was
            if rec.inprog:
                rec.run(("finalize",))
            # first a probe with values that are NOT exactly representable in narrower types, fed in pieces that
            # are held in the buffer before a frame is complete: state such as the buffer's dtype shows only then
            fresh = stubs.make_stft(L, S, st)
            vals_used, vals_fresh = [], []
            xr = nprng.randn(3 * L + S + 1)
            def chunked_probe(xv):
                p0 = 0
                for cpos in (1, max(1, L // 2 - 1), L, 3 * L + S + 1):
                    vals_used.append(c.compute_chunk(xv[p0:cpos]))
                    vals_fresh.append(fresh.compute_chunk(xv[p0:cpos]))
                    p0 = cpos
                vals_used.append(c.finalize())
                vals_fresh.append(fresh.finalize())
            # (the same samples also as byte-swapped single precision: to numpy another dtype again, and the result's
            # dtype must be what a new instance gives for it, whatever dtypes earlier utterances had; for every other
            # history that probe comes first, right after the history)
            if hi % 2:
                chunked_probe(xr.astype(">f4"))
            # a whole-signal call: result (values AND dtype) as a new instance gives it
            fu, ff = c.compute_full(xr), stubs.make_stft(L, S, st).compute_full(xr)
            if fu.dtype != ff.dtype or fu.shape != ff.shape or fu.tobytes() != ff.tobytes():
                run.violation({"kind": "stft_compute_full_differs_from_fresh_instance", "L": L, "S": S, "style": st,
                               "history": [list(o) for o in h], "used_dtype": str(fu.dtype), "fresh_dtype": str(ff.dtype)})
            chunked_probe(xr)
            if not hi % 2:
                chunked_probe(xr.astype(">f4"))
            rec.tap.take()
            # then a probe utterance of tokens on the used instance ...
            u = rec.utt + 1
            for op in probe_ops(L, S):
                ev, v = rec.run(op)
                vals_used.append(v)
            # ... and on the fresh instance with the same signal
            p = 0
            for op in probe_ops(L, S):
                if op[0] == "chunk":
                    vals_fresh.append(fresh.compute_chunk(T.signal(u, p, op[1])))
                    p += op[1]
                else:
                    vals_fresh.append(fresh.finalize())
            run.evaluations += 1
            a = np.concatenate(vals_used)
            b = np.concatenate(vals_fresh)
            # (modulo byte order: the recorder hands its chunks over in varying memory layouts)
            if [v.dtype.newbyteorder("=") for v in vals_used] != [v.dtype.newbyteorder("=") for v in vals_fresh]:
                run.violation({"kind": "stft_probe_dtype_differs_from_fresh_instance", "L": L, "S": S, "style": st, "history": [list(o) for o in h],
                               "used": [str(v.dtype) for v in vals_used], "fresh": [str(v.dtype) for v in vals_fresh]})
            if a.shape != b.shape or a.tobytes() != b.tobytes():
                run.violation({"kind": "stft_probe_differs_from_fresh_instance", "L": L, "S": S, "style": st,
                               "history": [list(o) for o in h], "used_shape": list(a.shape), "fresh_shape": list(b.shape)})
            if rec.input_modified:
                run.violation({"kind": "stft_input_array_modified", "L": L, "S": S, "style": st, "history": [list(o) for o in h]})
            tid += 1
            traces.append({"tid": tid, "cfg": {"L": L, "S": S, "st": stubs.spec_style(st)},
                           "events": [{k: e[k] for k in ("a", "err", "fr", "st", "c", "n", "cs") if k in e} for e in rec.events]})
            meta[tid] = (L, S, st, h)
    refused_calls_leave_no_trace(run, cfgs, nprng)
    rejected, tr = common.validate_traces_parallel("TraceStftDef", "TraceStftDef.cfg", traces, shards=14)
    run.traces += len(traces)
    run.states += tr.distinct
    run.transitions += tr.generated
    for (tid_, line, clause) in rejected:
        L, S, st, h = meta[tid_]
        run.violation({"kind": "stft_history_rejected_" + clause, "L": L, "S": S, "style": st, "history": [list(o) for o in h],
                       "event": line, "clause": clause, "trace": next(t for t in traces if t["tid"] == tid_)})
    run.sample(traces[7])
    run.extra["stft_histories"] = len(traces)
    if not rejected:
        def corrupt(t):
            t["events"][0]["st"] = not t["events"][0]["st"]
        common.assert_binding_live(run, "TraceStftDef", "TraceStftDef.cfg", traces[7], corrupt, "started flag of the first event flipped")


def si_histories(run, tier, rng):
    nprng = np.random.RandomState(rng.randint(0, 2 ** 31 - 1))
    warnings.filterwarnings("ignore", category=RuntimeWarning)  # (histories hold infinite samples: numpy says so at every later step)
    cfgs = gen_mc.si_configs(tier)
    if tier == "quick":
        # every third configuration, plus those with warm-up samples (skip > 0) and a shift of 3+,
        # where a short utterance can be absorbed entirely as context
        cfgs = [c for i, c in enumerate(cfgs)
                if i % 3 == 0 or (c["S"] >= 3 and c["T"] - (c["S"] if c["style"] == "centered" else 0) > 0)]
    # centered computers whose filters reach at least one frame shift to either side (translation >= shift > 2): an
    # utterance of a single sample is then absorbed without a frame and leaves pending samples behind
    for (S_, M_) in ((3, 9), (4, 9), (4, 11)):
        L_ = M_ + S_ - 1
        for D_ in sorted({L_, gen_mc.nextpow2(L_)}):
            cfgs.append(dict(style="centered", S=S_, M=M_, T=M_ // 2, D=D_, left=-(M_ // 2), length=M_))
    # causal computers whose padded DFT is much longer than a frame (the block transformed first still holds several
    # samples of whatever was in the buffer before)
    for (S_, M_) in ((1, 5), (2, 8), (3, 9)):
        L_ = M_ + S_ - 1
        c_ = dict(style="causal", S=S_, M=M_, T=0, D=gen_mc.nextpow2(L_), left=0, length=M_)
        if c_ not in cfgs:
            cfgs.append(c_)
    # C04 quantifies over ALL configurations: frame shifts longer than half the widest filter too (outside the range where
    # C01 / C03 pin the frame values down, so only used-versus-fresh is decided there and no trace is validated)
    for (S_, M_) in ((8, 5), (10, 7), (5, 4)):
        L_ = M_ + S_ - 1
        for D_ in sorted({L_, gen_mc.nextpow2(L_)}):
            cfgs.append(dict(style="centered", S=S_, M=M_, T=M_ // 2, D=D_, left=-(M_ // 2), length=M_, outside=True))
    traces, meta, tid = [], {}, 0
    for c in cfgs:
        taps = [list(nprng.randint(-3, 4, size=c["length"]).astype(float) + 0.5)]
        if c["style"] == "centered":
            taps[0][-1] = 0.0
        S, D = c["S"], c["D"]
        alpha = [("chunk", 0), ("chunk", 1), ("chunk", S), ("chunk", D), ("chunk", 2 * D + 1), ("finalize",),
                 ("full", 0), ("full", S + 1), ("full", 2 * D), ("chunk32", 2),
                 ("chunkint", 2),    # integer samples: refused today, and a refusal changes nothing
                 ("loud", 2 * D + 1), ("loud", 3), ("loud", max(2, D - 2)),  # utterances a million times louder than the next one
                 ("nonfinite", D + 1), ("nonfinite", 2),                      # ... or with samples that are not numbers at all
                 ("chunk", max(1, c["T"])), ("chunk", max(1, S - S // 2 - 1))]
        hists = [list(h) for d in range(1, 3) for h in itertools.product(alpha, repeat=d)]
        for _ in range(40 if tier == "quick" else 300):
            hists.append([rng.choice(alpha) for _ in range(10)])
        # (single samples first: the first DFT block of the probe then still holds whatever the buffer held before)
        probe = [("chunk", 1)] * (D + S) + [("chunk", D), ("chunk", 0), ("chunk", S + 1), ("finalize",)]
        for h in hists:
            # (window taps that single precision cannot hold: rounding anything the instance keeps to the precision of one
            # utterance would show in the next)
            comp = si_model.make_si(c, taps, window=stubs.ThirdsRamp(), use_power=True, use_log=False)
            rec = si_model.SiRecorder(comp)
            inprog = False
            for op in h:
                if op[0] == "chunk32":
                    x = nprng.randn(op[1]).astype(np.float32)
                    rec.call("chunk", x)
                    if not rec.events[-1]["err"]:
                        inprog = True
                    continue
                if op[0] == "chunkint":
                    rec.call("chunk", np.arange(op[1], dtype=np.int64))
                    if not rec.events[-1]["err"]:
                        inprog = True  # (a tree that accepts integer samples: then it is a chunk like any other; no property says either way)
                    if rec.events[-1]["st"] != inprog:
                        run.violation({"kind": "si_started_flag_wrong", "cfg": c, "history": [list(o) for o in h], "after": list(op),
                                       "started": rec.events[-1]["st"], "expected": inprog})
                    continue
                if op[0] == "nonfinite":
                    xb = nprng.randn(op[1])
                    xb[::3], xb[1::3], xb[2::3] = np.inf, np.nan, 1e200
                    with np.errstate(all="ignore"), warnings.catch_warnings():
                        warnings.simplefilter("ignore")
                        rec.call("chunk", xb)
                    if not rec.events[-1]["err"]:
                        inprog = True
                    continue
                if op[0] == "loud":
                    rec.call("chunk", nprng.randn(op[1]) * 1e6)
                    if not rec.events[-1]["err"]:
                        inprog = True
                    continue
                if op[0] == "finalize":
                    rec.call("finalize")
                    if rec.events[-1]["err"]:
                        run.violation({"kind": "si_finalize_raised", "cfg": c, "history": [list(o) for o in h]})
                    inprog = False
                    continue
                x = common.relayout(nprng.randint(-4, 5, size=op[1]).astype(np.float64), ("contig", "strided", "fortran", "negstride")[op[1] % 4])
                # (not the opposite byte order: to numpy that is another dtype, and a chunk whose dtype differs from the
                # utterance's first chunk is refused by documented design)
                x.flags.writeable = False
                keep = x.copy()
                was = inprog
                rec.call(op[0], x)
                ev = rec.events[-1]
                if not np.array_equal(x, keep):
                    run.violation({"kind": "si_input_array_modified", "cfg": c, "history": [list(o) for o in h]})
                if op[0] == "chunk" and not ev["err"]:
                    inprog = True
                # protocol clauses at the property level
                if op[0] == "full":
                    if was and not ev["err"]:
                        run.violation({"kind": "si_full_not_refused_mid_utterance", "cfg": c, "history": [list(o) for o in h]})
                    if not was and ev["err"]:
                        run.violation({"kind": "si_full_refused_while_idle", "cfg": c, "history": [list(o) for o in h]})
                if ev["st"] != inprog:
                    run.violation({"kind": "si_started_flag_wrong", "cfg": c, "history": [list(o) for o in h], "after": list(op),
                                   "started": ev["st"], "expected": inprog})
            if inprog:
                rec.call("finalize")
            xs = nprng.randint(-4, 5, size=sum(o[1] for o in probe if o[0] == "chunk")).astype(np.float64) + 0.25
            fresh = si_model.make_si(c, taps, window=stubs.ThirdsRamp(), use_power=True, use_log=False)
            used_vals, fresh_vals, p = [], [], 0
            refused = None
            for op in probe:
                if op[0] == "chunk":
                    used_vals.append(rec.call("chunk", xs[p:p + op[1]]))
                    fresh_vals.append(fresh.compute_chunk(xs[p:p + op[1]]))
                    p += op[1]
                else:
                    used_vals.append(rec.call("finalize"))
                    fresh_vals.append(fresh.finalize())
                if rec.events[-1]["err"] or not isinstance(used_vals[-1], np.ndarray):
                    refused = list(op)
                    break
            run.evaluations += 1
            if refused is not None:
                # the fresh instance accepted the call, the used one raised: hidden state survived the history
                run.violation({"kind": "si_probe_refused_by_used_instance", "cfg": c, "history": [list(o) for o in h], "call": refused})
                tid += 1
                traces.append({"tid": tid, "cfg": {k: c[k] for k in ("style", "S", "M", "T", "D")}, "events": rec.events})
                meta[tid] = (c, h)
                continue
            a, b = np.concatenate(used_vals), np.concatenate(fresh_vals)
            if a.shape != b.shape or a.tobytes() != b.tobytes():
                run.violation({"kind": "si_probe_differs_from_fresh_instance", "cfg": c, "history": [list(o) for o in h],
                               "used_shape": list(a.shape), "fresh_shape": list(b.shape)})
            if c.get("outside"):
                continue
            tid += 1
            traces.append({"tid": tid, "cfg": {k: c[k] for k in ("style", "S", "M", "T", "D")}, "events": rec.events})
            meta[tid] = (c, h)
    rejected, tr = common.validate_traces_parallel("TraceSi", "TraceSi.cfg", traces, shards=14)
    if tr.violated:
        run.violation({"kind": "si_trace_invariant_" + str(tr.violated), "detail": tr.errtext[-2000:]})
    run.traces += len(traces)
    run.states += tr.distinct
    run.transitions += tr.generated
    run.extra["si_histories"] = len(traces)
    run.extra["si_impl_divergences"] = len(rejected)
    run.extra["si_impl_divergence_examples"] = [{"cfg": meta[t][0], "history": [list(o) for o in meta[t][1]], "event": ln} for (t, ln, _) in rejected[:3]]
    if rejected:
        print("NOTE C04: %d SI histories do not follow the implementation-shaped model SiStream (informational)" % len(rejected))
    run.sample({"si_history": traces[5]})


def run(tier, seed):
    run = common.Run("C04", tier, seed)
    rng = random.Random(seed)
    c01.stft_model_check(run, tier)
    si_model.model_check(run, tier)
    stft_histories(run, tier, rng)
    si_histories(run, tier, rng)
    run.extra["rule"] = "all histories of depth <= 3 over a 10-letter alphabet (quick: every third) + random depth-12 histories, per configuration; probe utterance vs fresh instance, bitwise"
    run.assumptions += ["a probe utterance of 4 chunks exposes hidden state left by the history (buffers, counters, flags, dtype)"]
    return run.finish()


def replay(path):
    import json
    v = json.load(open(path))
    print(json.dumps(v, indent=1)[:4000])
    if "trace" in v:
        rej, _ = common.validate_traces("TraceStftDef", "TraceStftDef.cfg", [v["trace"]])
        print("re-validation:", "REJECTED %s" % (rej,) if rej else "accepted")
        return 1 if rej else 0
    return 0
