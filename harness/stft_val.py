"""Valuation layer for the STFT computers (C02, C14): evaluates the documented
definition with NumPy from (a) the frames TLC exports from FrameDef and (b) the
tap placement TLC exports from SpectrumWalk's Recipe.  Shares no code with
compute.py / torch.py."""
import json
import os
import shutil
import tempfile

import numpy as np

import common
from pydrobert.speech import config as pconfig


def export_frames(cases):
    """cases: list of dict(L,S,st,N) -> list of rows with 'frames' (sample indices)."""
    d = tempfile.mkdtemp(prefix="verif_fd_")
    try:
        inp, out = os.path.join(d, "cases.json"), os.path.join(d, "table.json")
        json.dump(cases, open(inp, "w"))
        r = common.tlc("FrameDefTable", "FrameDefTable.cfg", workdir=d, workers=1,
                       env={"IN_FILE": inp, "OUT_FILE": out}, timeout=900)
        rows = json.load(open(out))
    finally:
        shutil.rmtree(d, ignore_errors=True)
    if len(rows) != len(cases):
        raise common.MachineryError("FrameDefTable exported %d rows for %d cases" % (len(rows), len(cases)))
    return rows


def export_walk(tier):
    d = tempfile.mkdtemp(prefix="verif_sw_")
    try:
        out = os.path.join(d, "table.json")
        common.tlc("SpectrumWalkTable", "SpectrumWalkTable_%s.cfg" % tier, workdir=d, workers=1,
                   env={"OUT_FILE": out}, timeout=900)
        rows = json.load(open(out))
    finally:
        shutil.rmtree(d, ignore_errors=True)
    return {(r["D"], r["start"]): r for r in rows}


def full_response(D, start, taps, real, bins=None):
    """The documented recipe (get_truncated_response docstring).  bins: the
    spec-exported full-spectrum bin of each tap (complex banks); computed here
    when the spec table does not cover D."""
    H = np.zeros(D, dtype=np.complex128)
    taps = np.asarray(taps, dtype=np.complex128)
    if real:
        for j, v in enumerate(taps):
            b = start + j
            H[b] = v
        for j, v in enumerate(taps):
            b = start + j
            if b != 0 and (D - b) != b:
                H[D - b] = np.conj(v)
    else:
        for j, v in enumerate(taps):
            b = bins[j] if bins is not None else (start + j) % D
            H[b] = v
    return H


def contract_ok(D, start, taps, real):
    """What the recipe needs from the bank (monitored, not checked: C06)."""
    n = len(taps)
    if not (0 <= start < D and 1 <= n <= D):
        return False, "start/len outside [0,D)"
    if real:
        if start + n > D // 2 + 1:
            return False, "real bank leaves the half spectrum"
        t = np.asarray(taps)
        eps = 1e-10 * max(1e-300, float(np.max(np.abs(t))))  # round-off sized taps do not matter at rtol 1e-7
        if start == 0 and abs(t[0]) > eps:
            return False, "non-zero tap on bin 0 (self-conjugate)"
        if D % 2 == 0 and start + n - 1 == D // 2 and abs(t[-1]) > eps:
            return False, "non-zero tap on the Nyquist bin (self-conjugate)"
    return True, ""


def features(frame, window, D, filts, real, power, log, energy, walk=None, raw=False):
    """filts: list of (start, taps).  Returns the documented coefficients."""
    L = len(frame)
    X = np.fft.fft(np.asarray(frame, dtype=np.float64) * window, D)
    out = []
    if energy:
        e = float(np.dot(frame, frame)) / L
        if not power:
            e = e ** 0.5
        out.append(e)
    for (start, taps) in filts:
        bins = None
        if walk is not None and not real and (D, start) in walk:
            bins = walk[(D, start)]["bins"]
        H = full_response(D, start, taps, real, bins)
        a = np.abs(X * H)
        out.append(float(np.sum(a * a)) if power else float(np.sum(a)))
    out = np.array(out)
    if raw:
        return out
    if log:
        out = np.log(np.maximum(out, pconfig.LOG_FLOOR_VALUE))
    return out


def expected_matrix(x, row, window, D, filts, real, power, log, energy, walk=None):
    """Returns (expected, borderline): borderline marks coefficients whose pre-log
    value is within round-off of LOG_FLOOR_VALUE (either side is acceptable there)."""
    frames = row["frames"]
    ncoef = len(filts) + int(energy)
    raw = np.zeros((len(frames), ncoef))
    x = np.asarray(x, dtype=np.float64)
    for k, idx in enumerate(frames):
        raw[k] = features(x[idx], window, D, filts, real, power, log, energy, walk, raw=True)
    fl = pconfig.LOG_FLOOR_VALUE
    if log:
        return np.log(np.maximum(raw, fl)), np.abs(raw - fl) <= 1e-6 * fl
    return raw, np.zeros(raw.shape, dtype=bool)


def near_floor(exp):
    return np.abs(exp - np.log(pconfig.LOG_FLOOR_VALUE)) < 1e-6
