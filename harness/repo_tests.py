"""code -> spec on executions the harness did not choose: the repository's own tests are run with the guarded hooks
on, every frame-computer object's call sequence becomes a trace, and TLC validates the traces against the
count-level specifications (TraceStftCount / TraceSiCount).  The tests' own assertions are weak (they compare the
code with itself); the specifications' invariants are evaluated at every step of what the tests actually execute."""
import json
import os
import subprocess
import tempfile

import common


def record(test_files=("tests/test_compute.py",)):
    d = tempfile.mkdtemp(prefix="verif_rt_")
    trace = os.path.join(d, "trace.ndjson")
    env = dict(os.environ)
    env["PYDROBERT_SPEECH_VERIF"] = "1"
    env["PYDROBERT_SPEECH_VERIF_TRACE"] = trace
    env["PYTHONPATH"] = common.REPO_SRC + os.pathsep + env.get("PYTHONPATH", "")
    repo = os.path.dirname(common.REPO_SRC)
    p = subprocess.run(["/venv/bin/python", "-m", "pytest", "-q", "-p", "no:cacheprovider", "--timeout=900", "-x"] + list(test_files),
                       cwd=repo, env=env, stdout=subprocess.PIPE, stderr=subprocess.STDOUT, text=True, errors="replace")
    events = []
    if os.path.exists(trace):
        events = [json.loads(l) for l in open(trace)]
    import shutil
    shutil.rmtree(d, ignore_errors=True)
    return p.returncode, p.stdout[-400:], events


def traces_of(events, kind):
    # object ids are reused once an object is collected: an "init" event starts a new object
    per, gen = {}, {}
    for e in sorted((e for e in events if e["event"] == kind), key=lambda r: (r["pid"], r["seq"])):
        k = (e["pid"], e["obj"])
        if e["a"] == "init":
            gen[k] = gen.get(k, 0) + 1
            continue
        per.setdefault(k + (gen.get(k, 0),), []).append(e)
    out = []
    for k, evs in per.items():
        out.append({"tid": len(out) + 1, "cfg": evs[0]["cfg"], "N": -1,
                    "events": [{q: e[q] for q in ("a", "c", "nret", "st", "p")} for e in evs]})
    return out


def validate(run, prop):
    rc, tail, events = record()
    if rc not in (0, 1) or not events:
        raise common.MachineryError("could not trace the repository's tests (rc=%s): %s" % (rc, tail))
    stft = traces_of(events, "stft")
    si = traces_of(events, "si")
    # SI traces outside C03's precondition (shift not shorter than the one-sided support) are bound at the
    # implementation level only: the frame-count definition is not promised for them
    si_in = [t for t in si if (t["cfg"]["S"] < t["cfg"]["M"] - t["cfg"]["M"] // 2 if t["cfg"]["centered"]
                               else t["cfg"]["S"] < t["cfg"]["M"] - t["cfg"]["T"])]
    n = 0
    for name, module, traces in (("stft", "TraceStftCount", stft), ("si", "TraceSiCount", si_in)):
        if not traces:
            continue
        for i, t in enumerate(traces):
            t["tid"] = i + 1
        rej, r = common.validate_traces(module, module + ".cfg", traces)
        run.traces += len(traces)
        run.states += r.distinct
        run.transitions += r.generated
        n += sum(len(t["events"]) for t in traces)
        for (tid, line, clause) in rej:
            t = traces[tid - 1]
            run.violation({"kind": "repository_test_trace_%s_%s" % (name, clause), "cfg": t["cfg"], "event_index": line,
                           "events_up_to_there": t["events"][max(0, line - 4):line]})
        div = [common.parse_tla_tuple(x) for x in r.tuples if x.startswith('<<"DIVERGED"')]
        run.extra.setdefault("repository_test_traces", {})[name] = {"objects": len(traces), "events": sum(len(t["events"]) for t in traces),
                                                                     "impl_divergences": len(div)}
    run.extra["repository_test_traces"]["si_objects_outside_precondition"] = len(si) - len(si_in)
    run.evaluations += n
    if stft:
        run.sample({"repository_test_trace": {"cfg": stft[0]["cfg"], "events": stft[0]["events"][:5]}})
